// cv-sim: deterministic simulation driver for the cacache properties.
//   cv-sim check <ID> --tier quick|thorough --workers DIR [--runs N] [--lanes N]
//   cv-sim lane  <ID> --tier T --workers DIR --lane i --lanes N --runs N --out FILE   (internal)
//   cv-sim replay FILE --workers DIR
mod checks;
mod disk;
mod fmt;
mod gen;
mod gen2;
mod hash;
mod interp;
mod penc;
mod prng;
mod pt;
mod tracer;
mod report;
mod sysim;
mod wk;

use std::path::PathBuf;

pub struct Args {
    pub cmd: String,
    pub id: String,
    pub tier: String,
    pub workers: PathBuf,
    pub runs: Option<u64>,
    pub lanes: u64,
    pub lane: u64,
    pub out: Option<PathBuf>,
    pub seed: u64,
    pub file: Option<PathBuf>,
    pub verif: PathBuf,
    pub keep: bool,
    pub only_run: Option<u64>,
}

fn parse_args() -> Args {
    let a: Vec<String> = std::env::args().collect();
    let mut args = Args {
        cmd: a.get(1).cloned().unwrap_or_default(),
        id: String::new(),
        tier: std::env::var("VERIF_TIER").unwrap_or_else(|_| "quick".into()),
        workers: PathBuf::from("/verif/target/w-main"),
        runs: None,
        lanes: 16,
        lane: 0,
        out: None,
        seed: std::env::var("VERIF_SEED").ok().and_then(|s| s.parse().ok()).unwrap_or(1),
        file: None,
        verif: PathBuf::from(std::env::var("VERIF_DIR").unwrap_or_else(|_| "/verif".into())),
        keep: false,
        only_run: None,
    };
    let mut i = 2;
    while i < a.len() {
        let nxt = |i: usize| a.get(i + 1).cloned().unwrap_or_default();
        match a[i].as_str() {
            "--tier" => {
                args.tier = nxt(i);
                i += 1;
            }
            "--workers" => {
                args.workers = PathBuf::from(nxt(i));
                i += 1;
            }
            "--runs" => {
                args.runs = nxt(i).parse().ok();
                i += 1;
            }
            "--lanes" => {
                args.lanes = nxt(i).parse().unwrap_or(16);
                i += 1;
            }
            "--lane" => {
                args.lane = nxt(i).parse().unwrap_or(0);
                i += 1;
            }
            "--out" => {
                args.out = Some(PathBuf::from(nxt(i)));
                i += 1;
            }
            "--seed" => {
                args.seed = nxt(i).parse().unwrap_or(1);
                i += 1;
            }
            "--run" => {
                args.only_run = nxt(i).parse().ok();
                i += 1;
            }
            "--keep" => args.keep = true,
            s if !s.starts_with("--") => {
                if args.cmd == "replay" {
                    args.file = Some(PathBuf::from(s));
                } else if args.id.is_empty() {
                    args.id = s.to_string();
                }
            }
            _ => {}
        }
        i += 1;
    }
    args
}

fn main() {
    let args = parse_args();
    let code = match args.cmd.as_str() {
        "check" => report::orchestrate(&args),
        "lane" => report::lane_main(&args),
        "replay" => report::replay_main(&args),
        "gen" | "trace" => report::gen_main(&args),
        _ => {
            eprintln!("usage: cv-sim check|lane|replay ...");
            2
        }
    };
    std::process::exit(code);
}
