fn main(){ println!("sim stub"); }
