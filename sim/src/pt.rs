// ptrace plumbing for the system-call level simulator (x86-64 Linux only).
// One Tracer per lane process; the lane is single threaded, so waitpid(-1, __WALL) sees only our tracees.
#![allow(dead_code)]
use std::collections::BTreeMap;
use std::ffi::CString;
use std::path::{Path, PathBuf};

pub const SYS_READ: i64 = 0;
pub const SYS_WRITE: i64 = 1;
pub const SYS_OPEN: i64 = 2;
pub const SYS_CLOSE: i64 = 3;
pub const SYS_STAT: i64 = 4;
pub const SYS_FSTAT: i64 = 5;
pub const SYS_LSTAT: i64 = 6;
pub const SYS_MMAP: i64 = 9;
pub const SYS_IOCTL: i64 = 16;
pub const SYS_PREAD64: i64 = 17;
pub const SYS_PWRITE64: i64 = 18;
pub const SYS_READV: i64 = 19;
pub const SYS_WRITEV: i64 = 20;
pub const SYS_ACCESS: i64 = 21;
pub const SYS_MSYNC: i64 = 26;
pub const SYS_DUP: i64 = 32;
pub const SYS_DUP2: i64 = 33;
pub const SYS_SENDFILE: i64 = 40;
pub const SYS_FCNTL: i64 = 72;
pub const SYS_FSYNC: i64 = 74;
pub const SYS_FDATASYNC: i64 = 75;
pub const SYS_TRUNCATE: i64 = 76;
pub const SYS_FTRUNCATE: i64 = 77;
pub const SYS_GETDENTS: i64 = 78;
pub const SYS_CHDIR: i64 = 80;
pub const SYS_FCHDIR: i64 = 81;
pub const SYS_RENAME: i64 = 82;
pub const SYS_MKDIR: i64 = 83;
pub const SYS_RMDIR: i64 = 84;
pub const SYS_CREAT: i64 = 85;
pub const SYS_LINK: i64 = 86;
pub const SYS_UNLINK: i64 = 87;
pub const SYS_SYMLINK: i64 = 88;
pub const SYS_READLINK: i64 = 89;
pub const SYS_CHMOD: i64 = 90;
pub const SYS_FCHMOD: i64 = 91;
pub const SYS_CHOWN: i64 = 92;
pub const SYS_FCHOWN: i64 = 93;
pub const SYS_LCHOWN: i64 = 94;
pub const SYS_GETDENTS64: i64 = 217;
pub const SYS_OPENAT: i64 = 257;
pub const SYS_MKDIRAT: i64 = 258;
pub const SYS_FCHOWNAT: i64 = 260;
pub const SYS_NEWFSTATAT: i64 = 262;
pub const SYS_UNLINKAT: i64 = 263;
pub const SYS_RENAMEAT: i64 = 264;
pub const SYS_LINKAT: i64 = 265;
pub const SYS_SYMLINKAT: i64 = 266;
pub const SYS_READLINKAT: i64 = 267;
pub const SYS_FCHMODAT: i64 = 268;
pub const SYS_FACCESSAT: i64 = 269;
pub const SYS_UTIMENSAT: i64 = 280;
pub const SYS_FALLOCATE: i64 = 285;
pub const SYS_DUP3: i64 = 292;
pub const SYS_RENAMEAT2: i64 = 316;
pub const SYS_GETRANDOM: i64 = 318;
pub const SYS_COPY_FILE_RANGE: i64 = 326;
pub const SYS_STATX: i64 = 332;
pub const SYS_OPENAT2: i64 = 437;
pub const SYS_FACCESSAT2: i64 = 439;
pub const SYS_SETXATTR: i64 = 188;
pub const SYS_LSETXATTR: i64 = 189;
pub const SYS_FSETXATTR: i64 = 190;
pub const SYS_REMOVEXATTR: i64 = 197;

pub const FICLONE: u64 = 0x40049409;
const AT_FDCWD: i32 = -100;
const PTRACE_GET_SYSCALL_INFO: libc::c_uint = 0x420e;

pub fn sys_name(nr: i64) -> &'static str {
    match nr {
        SYS_READ => "read",
        SYS_WRITE => "write",
        SYS_OPEN => "open",
        SYS_CLOSE => "close",
        SYS_STAT => "stat",
        SYS_FSTAT => "fstat",
        SYS_LSTAT => "lstat",
        SYS_MMAP => "mmap",
        SYS_IOCTL => "ioctl",
        SYS_PREAD64 => "pread64",
        SYS_PWRITE64 => "pwrite64",
        SYS_READV => "readv",
        SYS_WRITEV => "writev",
        SYS_ACCESS => "access",
        SYS_MSYNC => "msync",
        SYS_SENDFILE => "sendfile",
        SYS_FSYNC => "fsync",
        SYS_FDATASYNC => "fdatasync",
        SYS_TRUNCATE => "truncate",
        SYS_FTRUNCATE => "ftruncate",
        SYS_GETDENTS | SYS_GETDENTS64 => "getdents64",
        SYS_RENAME => "rename",
        SYS_MKDIR => "mkdir",
        SYS_RMDIR => "rmdir",
        SYS_CREAT => "creat",
        SYS_LINK => "link",
        SYS_UNLINK => "unlink",
        SYS_SYMLINK => "symlink",
        SYS_READLINK => "readlink",
        SYS_CHMOD | SYS_FCHMOD | SYS_FCHMODAT => "chmod",
        SYS_CHOWN | SYS_FCHOWN | SYS_LCHOWN | SYS_FCHOWNAT => "chown",
        SYS_OPENAT => "openat",
        SYS_MKDIRAT => "mkdirat",
        SYS_NEWFSTATAT => "newfstatat",
        SYS_UNLINKAT => "unlinkat",
        SYS_RENAMEAT => "renameat",
        SYS_LINKAT => "linkat",
        SYS_SYMLINKAT => "symlinkat",
        SYS_READLINKAT => "readlinkat",
        SYS_FACCESSAT | SYS_FACCESSAT2 => "faccessat",
        SYS_UTIMENSAT => "utimensat",
        SYS_FALLOCATE => "fallocate",
        SYS_RENAMEAT2 => "renameat2",
        SYS_COPY_FILE_RANGE => "copy_file_range",
        SYS_STATX => "statx",
        SYS_OPENAT2 => "openat2",
        SYS_SETXATTR | SYS_LSETXATTR | SYS_FSETXATTR | SYS_REMOVEXATTR => "xattr",
        _ => "other",
    }
}

#[derive(Clone, Debug, Default)]
pub struct Sys {
    pub nr: i64,
    pub args: [u64; 6],
    pub name: &'static str,
    pub path: Option<String>,  // primary path (absolute, lexically normalised)
    pub path2: Option<String>, // second path (rename/link/symlink destination)
    pub fd: Option<i32>,
    pub len: Option<u64>,      // byte count of data-carrying calls
    pub mutating: bool,        // can create, change or delete a filesystem object
    pub data_write: bool,      // write-family call carrying data
    pub creates: bool,         // open with O_CREAT
    pub flags: u64,
}

#[derive(Clone, Debug, PartialEq)]
pub enum TState {
    Running,
    Parked,  // stopped at the entry of a relevant syscall, not resumed
    Granted, // resumed into the syscall, waiting for its exit stop
    ExitHeld, // stopped at the entry of exit_group, held until the client's other threads are idle
    Exited,
}

#[derive(Clone, Debug)]
pub struct Thread {
    pub tid: i32,
    pub state: TState,
    pub in_syscall: bool,
    pub cur: Option<Sys>,
    pub inject_ret: Option<i64>, // value to force into rax at the exit stop
    pub post_kill: bool,
    pub ficlone: bool,
    pub ev_idx: Option<usize>,
}

pub struct Client {
    pub idx: usize,
    pub pid: i32,
    pub threads: BTreeMap<i32, Thread>,
    pub fds: BTreeMap<i32, String>,
    pub cwd: String,
    pub n_rel: usize, // ordinal of relevant syscalls executed or parked so far
    pub exit: Option<String>,
    pub out_path: String,
    pub cur_op: Option<usize>, // index of the API op in progress (from the B/E markers)
    pub ops_done: usize,
    pub killed: bool,
}

impl Client {
    pub fn live(&self) -> bool {
        self.exit.is_none() && self.threads.values().any(|t| t.state != TState::Exited)
    }
    pub fn parked(&self) -> Vec<i32> {
        self.threads.values().filter(|t| t.state == TState::Parked).map(|t| t.tid).collect()
    }
}

fn errno() -> i32 {
    unsafe { *libc::__errno_location() }
}

pub fn ptrace(req: libc::c_uint, pid: i32, addr: usize, data: usize) -> i64 {
    unsafe { libc::ptrace(req, pid, addr, data) }
}

pub fn getregs(tid: i32) -> Option<libc::user_regs_struct> {
    let mut regs: libc::user_regs_struct = unsafe { std::mem::zeroed() };
    let r = ptrace(libc::PTRACE_GETREGS, tid, 0, &mut regs as *mut _ as usize);
    if r < 0 {
        None
    } else {
        Some(regs)
    }
}

pub fn setregs(tid: i32, regs: &libc::user_regs_struct) -> bool {
    ptrace(libc::PTRACE_SETREGS, tid, 0, regs as *const _ as usize) >= 0
}

/// 1 = entry, 2 = exit, 0 = none / unknown
pub fn syscall_op(tid: i32) -> u8 {
    let mut buf = [0u8; 128];
    let r = ptrace(PTRACE_GET_SYSCALL_INFO, tid, buf.len(), buf.as_mut_ptr() as usize);
    if r < 0 {
        0
    } else {
        buf[0]
    }
}

pub fn read_mem(pid: i32, addr: u64, len: usize) -> Vec<u8> {
    let mut buf = vec![0u8; len];
    if len == 0 || addr == 0 {
        return Vec::new();
    }
    let local = libc::iovec { iov_base: buf.as_mut_ptr() as *mut libc::c_void, iov_len: len };
    let remote = libc::iovec { iov_base: addr as *mut libc::c_void, iov_len: len };
    let n = unsafe { libc::process_vm_readv(pid, &local, 1, &remote, 1, 0) };
    if n <= 0 {
        return Vec::new();
    }
    buf.truncate(n as usize);
    buf
}

pub fn write_mem(pid: i32, addr: u64, data: &[u8]) -> bool {
    if data.is_empty() {
        return true;
    }
    let local = libc::iovec { iov_base: data.as_ptr() as *mut libc::c_void, iov_len: data.len() };
    let remote = libc::iovec { iov_base: addr as *mut libc::c_void, iov_len: data.len() };
    let n = unsafe { libc::process_vm_writev(pid, &local, 1, &remote, 1, 0) };
    n == data.len() as isize
}

pub fn read_cstr(pid: i32, addr: u64) -> String {
    if addr == 0 {
        return String::new();
    }
    let mut out: Vec<u8> = Vec::new();
    let mut a = addr;
    // read up to the page boundary first so that an unmapped next page does not fail the whole read
    loop {
        let to_page = 4096 - (a % 4096) as usize;
        let chunk = read_mem(pid, a, to_page.min(4096));
        if chunk.is_empty() {
            break;
        }
        if let Some(p) = chunk.iter().position(|&b| b == 0) {
            out.extend_from_slice(&chunk[..p]);
            break;
        }
        out.extend_from_slice(&chunk);
        a += chunk.len() as u64;
        if out.len() > 16384 {
            break;
        }
    }
    crate::penc::penc_bytes(&out)
}

pub fn normalize(p: &str) -> String {
    let mut parts: Vec<&str> = Vec::new();
    for c in p.split('/') {
        match c {
            "" | "." => {}
            ".." => {
                parts.pop();
            }
            x => parts.push(x),
        }
    }
    format!("/{}", parts.join("/"))
}

impl Client {
    pub fn resolve(&self, dirfd: i32, path: &str) -> String {
        if path.starts_with('/') {
            return normalize(path);
        }
        let base = if dirfd == AT_FDCWD { self.cwd.clone() } else { self.fds.get(&dirfd).cloned().unwrap_or_else(|| format!("/?fd{}", dirfd)) };
        if path.is_empty() {
            return normalize(&base);
        }
        normalize(&format!("{}/{}", base, path))
    }

    /// decode the syscall a thread is about to enter
    pub fn decode(&self, pid: i32, regs: &libc::user_regs_struct) -> Sys {
        let nr = regs.orig_rax as i64;
        let a = [regs.rdi, regs.rsi, regs.rdx, regs.r10, regs.r8, regs.r9];
        let mut s = Sys { nr, args: a, name: sys_name(nr), ..Default::default() };
        let wr_flags = |f: u64| (f & 3) != 0 || (f & (libc::O_CREAT as u64 | libc::O_TRUNC as u64 | libc::O_APPEND as u64)) != 0;
        match nr {
            SYS_OPEN | SYS_CREAT => {
                s.path = Some(self.resolve(AT_FDCWD, &read_cstr(pid, a[0])));
                s.flags = if nr == SYS_CREAT { (libc::O_CREAT | libc::O_WRONLY | libc::O_TRUNC) as u64 } else { a[1] };
                s.mutating = wr_flags(s.flags);
                s.creates = s.flags & libc::O_CREAT as u64 != 0;
            }
            SYS_OPENAT => {
                s.path = Some(self.resolve(a[0] as i32, &read_cstr(pid, a[1])));
                s.flags = a[2];
                s.mutating = wr_flags(s.flags);
                s.creates = s.flags & libc::O_CREAT as u64 != 0;
            }
            SYS_OPENAT2 => {
                s.path = Some(self.resolve(a[0] as i32, &read_cstr(pid, a[1])));
                let how = read_mem(pid, a[2], 8);
                if how.len() == 8 {
                    s.flags = u64::from_le_bytes([how[0], how[1], how[2], how[3], how[4], how[5], how[6], how[7]]);
                }
                s.mutating = wr_flags(s.flags);
                s.creates = s.flags & libc::O_CREAT as u64 != 0;
            }
            SYS_READ | SYS_PREAD64 | SYS_READV | SYS_GETDENTS | SYS_GETDENTS64 | SYS_FSTAT | SYS_FSYNC | SYS_FDATASYNC | SYS_MSYNC => {
                if nr != SYS_MSYNC {
                    s.fd = Some(a[0] as i32);
                    s.path = self.fds.get(&(a[0] as i32)).cloned();
                }
                if nr == SYS_READ || nr == SYS_PREAD64 {
                    s.len = Some(a[2]);
                }
            }
            SYS_WRITE | SYS_PWRITE64 => {
                s.fd = Some(a[0] as i32);
                s.path = self.fds.get(&(a[0] as i32)).cloned();
                s.len = Some(a[2]);
                s.mutating = true;
                s.data_write = true;
            }
            SYS_WRITEV => {
                s.fd = Some(a[0] as i32);
                s.path = self.fds.get(&(a[0] as i32)).cloned();
                s.mutating = true;
                s.data_write = true;
            }
            SYS_STAT | SYS_LSTAT | SYS_ACCESS | SYS_READLINK => {
                s.path = Some(self.resolve(AT_FDCWD, &read_cstr(pid, a[0])));
            }
            SYS_NEWFSTATAT | SYS_STATX | SYS_FACCESSAT | SYS_FACCESSAT2 | SYS_READLINKAT => {
                s.path = Some(self.resolve(a[0] as i32, &read_cstr(pid, a[1])));
            }
            SYS_MKDIR | SYS_RMDIR | SYS_UNLINK | SYS_TRUNCATE | SYS_CHMOD | SYS_CHOWN | SYS_LCHOWN | SYS_SETXATTR | SYS_LSETXATTR | SYS_REMOVEXATTR => {
                s.path = Some(self.resolve(AT_FDCWD, &read_cstr(pid, a[0])));
                s.mutating = true;
            }
            SYS_MKDIRAT | SYS_UNLINKAT | SYS_FCHMODAT | SYS_FCHOWNAT | SYS_UTIMENSAT => {
                s.path = Some(self.resolve(a[0] as i32, &read_cstr(pid, a[1])));
                s.mutating = true;
            }
            SYS_RENAME | SYS_LINK => {
                s.path = Some(self.resolve(AT_FDCWD, &read_cstr(pid, a[0])));
                s.path2 = Some(self.resolve(AT_FDCWD, &read_cstr(pid, a[1])));
                s.mutating = true;
            }
            SYS_RENAMEAT | SYS_RENAMEAT2 | SYS_LINKAT => {
                s.path = Some(self.resolve(a[0] as i32, &read_cstr(pid, a[1])));
                s.path2 = Some(self.resolve(a[2] as i32, &read_cstr(pid, a[3])));
                s.mutating = true;
            }
            SYS_SYMLINK => {
                // symlink(target, linkpath): the created object is linkpath
                s.path = Some(self.resolve(AT_FDCWD, &read_cstr(pid, a[1])));
                s.path2 = Some(read_cstr(pid, a[0]));
                s.mutating = true;
            }
            SYS_SYMLINKAT => {
                s.path = Some(self.resolve(a[1] as i32, &read_cstr(pid, a[2])));
                s.path2 = Some(read_cstr(pid, a[0]));
                s.mutating = true;
            }
            SYS_FTRUNCATE | SYS_FALLOCATE | SYS_FCHMOD | SYS_FCHOWN | SYS_FSETXATTR => {
                s.fd = Some(a[0] as i32);
                s.path = self.fds.get(&(a[0] as i32)).cloned();
                s.mutating = true;
            }
            SYS_MMAP => {
                let fd = a[4] as i32;
                if fd >= 0 && (a[3] & libc::MAP_ANONYMOUS as u64) == 0 {
                    s.fd = Some(fd);
                    s.path = self.fds.get(&fd).cloned();
                    s.mutating = (a[2] & libc::PROT_WRITE as u64) != 0 && (a[3] & libc::MAP_SHARED as u64) != 0;
                    s.len = Some(a[1]);
                }
            }
            SYS_COPY_FILE_RANGE => {
                // (fd_in, off_in, fd_out, off_out, len, flags): the mutated object is fd_out
                s.fd = Some(a[2] as i32);
                s.path = self.fds.get(&(a[2] as i32)).cloned();
                s.path2 = self.fds.get(&(a[0] as i32)).cloned();
                s.len = Some(a[4]);
                s.mutating = true;
                s.data_write = true;
            }
            SYS_SENDFILE => {
                s.fd = Some(a[0] as i32);
                s.path = self.fds.get(&(a[0] as i32)).cloned();
                s.path2 = self.fds.get(&(a[1] as i32)).cloned();
                s.len = Some(a[3]);
                s.mutating = true;
                s.data_write = true;
            }
            SYS_IOCTL => {
                if a[1] == FICLONE {
                    s.name = "ioctl(FICLONE)";
                    s.fd = Some(a[0] as i32);
                    s.path = self.fds.get(&(a[0] as i32)).cloned();
                    s.path2 = self.fds.get(&(a[2] as i32)).cloned();
                    s.mutating = true;
                }
            }
            SYS_CHDIR => {
                s.path = Some(self.resolve(AT_FDCWD, &read_cstr(pid, a[0])));
            }
            _ => {}
        }
        s
    }

    /// bookkeeping at the exit of a syscall (fd table, cwd)
    pub fn after(&mut self, s: &Sys, ret: i64) {
        match s.nr {
            SYS_OPEN | SYS_OPENAT | SYS_OPENAT2 | SYS_CREAT => {
                if ret >= 0 {
                    if let Some(p) = &s.path {
                        self.fds.insert(ret as i32, p.clone());
                    }
                }
            }
            SYS_CLOSE => {
                self.fds.remove(&(s.args[0] as i32));
            }
            SYS_DUP | SYS_DUP2 | SYS_DUP3 => {
                if ret >= 0 {
                    if let Some(p) = self.fds.get(&(s.args[0] as i32)).cloned() {
                        self.fds.insert(ret as i32, p);
                    } else {
                        self.fds.remove(&(ret as i32));
                    }
                }
            }
            SYS_FCNTL => {
                let cmd = s.args[1];
                if ret >= 0 && (cmd == libc::F_DUPFD as u64 || cmd == libc::F_DUPFD_CLOEXEC as u64) {
                    if let Some(p) = self.fds.get(&(s.args[0] as i32)).cloned() {
                        self.fds.insert(ret as i32, p);
                    }
                }
            }
            SYS_CHDIR => {
                if ret == 0 {
                    if let Some(p) = &s.path {
                        self.cwd = p.clone();
                    }
                }
            }
            SYS_FCHDIR => {
                if ret == 0 {
                    if let Some(p) = self.fds.get(&(s.args[0] as i32)).cloned() {
                        self.cwd = p;
                    }
                }
            }
            _ => {}
        }
    }
}

extern "C" fn on_alarm(_: libc::c_int) {}

pub fn install_alarm_handler() {
    unsafe {
        let mut sa: libc::sigaction = std::mem::zeroed();
        sa.sa_sigaction = on_alarm as usize;
        sa.sa_flags = 0; // no SA_RESTART: a blocked waitpid returns EINTR when the watchdog fires
        libc::sigaction(libc::SIGALRM, &sa, std::ptr::null_mut());
    }
}

/// fork + exec a worker as a tracee; returns its pid after the exec stop has been consumed
pub fn spawn_traced(bin: &Path, args: &[String], cwd: &Path, env: &[(String, String)]) -> Result<i32, String> {
    let cbin = CString::new(std::os::unix::ffi::OsStrExt::as_bytes(bin.as_os_str())).map_err(|e| e.to_string())?;
    let mut cargs: Vec<CString> = vec![cbin.clone()];
    for a in args {
        cargs.push(CString::new(a.as_str()).map_err(|e| e.to_string())?);
    }
    let mut argv: Vec<*const libc::c_char> = cargs.iter().map(|c| c.as_ptr()).collect();
    argv.push(std::ptr::null());
    let cenv: Vec<CString> = env.iter().map(|(k, v)| CString::new(format!("{}={}", k, v)).unwrap()).collect();
    let mut envp: Vec<*const libc::c_char> = cenv.iter().map(|c| c.as_ptr()).collect();
    envp.push(std::ptr::null());
    let ccwd = CString::new(std::os::unix::ffi::OsStrExt::as_bytes(cwd.as_os_str())).map_err(|e| e.to_string())?;
    let devnull = CString::new("/dev/null").unwrap();
    let pid = unsafe { libc::fork() };
    if pid < 0 {
        return Err("fork failed".into());
    }
    if pid == 0 {
        unsafe {
            libc::personality(0x0040000); // ADDR_NO_RANDOMIZE
            libc::chdir(ccwd.as_ptr());
            let fd = libc::open(devnull.as_ptr(), libc::O_RDWR);
            if fd >= 0 {
                libc::dup2(fd, 0);
                libc::dup2(fd, 1);
                libc::dup2(fd, 2);
                if fd > 2 {
                    libc::close(fd);
                }
            }
            libc::ptrace(libc::PTRACE_TRACEME, 0, 0, 0);
            libc::raise(libc::SIGSTOP);
            libc::execve(cbin.as_ptr(), argv.as_ptr(), envp.as_ptr());
            libc::_exit(127);
        }
    }
    // parent: wait for the SIGSTOP, set options, continue to the exec
    let mut status = 0;
    let r = unsafe { libc::waitpid(pid, &mut status, libc::__WALL) };
    if r != pid || !libc::WIFSTOPPED(status) {
        return Err(format!("tracee did not stop (status {status:#x})"));
    }
    let opts = libc::PTRACE_O_TRACESYSGOOD | libc::PTRACE_O_TRACECLONE | libc::PTRACE_O_TRACEFORK | libc::PTRACE_O_TRACEVFORK | libc::PTRACE_O_TRACEEXEC | libc::PTRACE_O_EXITKILL;
    if ptrace(libc::PTRACE_SETOPTIONS, pid, 0, opts as usize) < 0 {
        return Err(format!("PTRACE_SETOPTIONS failed: errno {}", errno()));
    }
    if ptrace(libc::PTRACE_SYSCALL, pid, 0, 0) < 0 {
        return Err("PTRACE_SYSCALL failed".into());
    }
    Ok(pid)
}

pub fn tgid_of(tid: i32) -> Option<i32> {
    let s = std::fs::read_to_string(format!("/proc/{}/status", tid)).ok()?;
    for l in s.lines() {
        if let Some(r) = l.strip_prefix("Tgid:") {
            return r.trim().parse().ok();
        }
    }
    None
}

pub fn cwd_string(p: &Path) -> String {
    normalize(&crate::penc::penc(p))
}

pub fn pathbuf(s: &str) -> PathBuf {
    PathBuf::from(s)
}
