// The table of checks: which engine, which violation classes each property owns, budgets, rules.
use serde_json::Value;

use crate::gen;
use crate::gen2;
use crate::interp::Outcome;
use crate::prng::Rng;

pub struct CheckSpec {
    pub id: &'static str,
    pub engine: &'static str, // opsim | tri | sysim
    pub level: &'static str,
    pub owns: &'static [&'static str],
    pub runs: (u64, u64), // seeded runs: quick, thorough (exhaustive cores come on top)
    pub rule: &'static str,
    pub assumptions: &'static [&'static str],
}

const A_COMMON: &[&str] = &[
    "the kernel's tmpfs implements POSIX file semantics",
    "the simulator's own SHA-1/SHA-2/XXH3 digests (RustCrypto / xxhash-rust, cross-checked against python hashlib by tools/refimpl.py) are correct",
    "workers are the real library built from /repo's working tree in three feature sets; only the clock (symbol interposition) is simulated in opsim runs",
];

pub fn specs() -> Vec<CheckSpec> {
    vec![
        CheckSpec {
            id: "C01",
            engine: "opsim",
            level: "fault_enumeration",
            owns: &["checked-read", "read-exact"],
            runs: (2500, 120_000),
            rule: "a case = one stored value x one damage to its content file x every checked retrieval entry point (by key and by address, 5 API flavours); exhaustive core: every single-bit flip and every truncation length of files <= 24 B (quick) / <= 64 B (thorough); beyond that seeded damage (flip, truncate, extend, empty, garble, replace with / swap with / symlink to another valid entry, delete, mid-stream damage). Non-trivial = the damaged file was actually opened by a checked retrieval; distinct by hash of the normalised step/result log. Reader schedules include empty buffers, exactly the stored length followed by an empty buffer, small-then-large buffers, reads after end of file and read_to_end into a part-filled vector; checked copies go onto existing longer / same-length files and onto the hard link an extraction has just made; a key is sometimes attached to the content by a raw index record without a size",
            assumptions: A_COMMON,
        },
        CheckSpec {
            id: "C02",
            engine: "opsim",
            level: "exploration",
            owns: &["write-ok", "address", "read-exact", "lookup", "missing-content", "commit-accept", "content-integrity"],
            runs: (4000, 250_000),
            rule: "a case = a seeded history of 1-5 writes (all entry points, chunkings incl. empty/decreasing/single-byte chunks, flush, 5 algorithms, hostile keys, sizes 0..3 MiB around the 1 MiB mmap threshold, declared size correct or absent) each followed by reads by key and by address through a drawn flavour and finally through all three. Non-trivial = at least one write succeeded and was read back; distinct by hash of the normalised step/result log. Declared sizes are wrong in 1 of 6 declarations (rejection demanded, lookups unchanged). 2 runs in 16 are the own-writes family under the system-call scheduler: one async client reads back at once what it has just written or removed while system calls its previous call left on runtime pool threads are still parked; the schedule (canonical-first, seeded random, PCT) decides which goes first. Options are sometimes set twice (other values first), writes sometimes go through write_vectored, reads through read_to_end / small-then-large buffers; 2 runs in 32 use paths that are not valid UTF-8",
            assumptions: A_COMMON,
        },
        CheckSpec {
            id: "C05",
            engine: "opsim",
            level: "exploration",
            owns: &["lookup", "read-exact", "missing-content"],
            runs: (2500, 150_000),
            rule: "exhaustive core: every history of length <= 4 (quick) / <= 5 (thorough) over {2 keys} x {write short record, write long record, remove} with a full audit (metadata, read, list of every key) after every step through a drawn flavour; then seeded histories of 2-40 ops over 1-6 keys with mixed sync/async flavours and valid foreign-key records planted in bucket files. Non-trivial = history contains a re-write or a removal of a previously written key; distinct by hash of the normalised log. 1 run in 16 is the own-writes family under the system-call scheduler (see C02); 1 run in 14 uses keys whose buckets share index directories, with a lazily consumed listing during which the caller removes one of them for good; 1 run in 16 keeps a streaming writer open on a key while that key's bucket file is unlinked (a full removal by somebody else): the commit is the most recent successful write",
            assumptions: A_COMMON,
        },
        CheckSpec {
            id: "C06",
            engine: "opsim",
            level: "fault_enumeration",
            owns: &["lookup", "listing", "read-exact"],
            runs: (2500, 120_000),
            rule: "a case = a bucket history of 1-5 records x one damage (every cut length and every single-bit flip of small buckets in the exhaustive core; garbage / NUL / invalid-UTF-8 / very long lines inserted at record boundaries, duplicated fragments beyond it) followed by 0-2 further appends, audited through all flavours against the simulator's own decode of the undamaged records. Non-trivial = the damage changed the bytes of a bucket holding >= 1 record",
            assumptions: A_COMMON,
        },
        CheckSpec {
            id: "C08",
            engine: "opsim",
            level: "exploration",
            owns: &["commit-reject", "commit-accept", "lookup", "listing", "abandon-trace", "read-exact", "missing-content"],
            runs: (3000, 150_000),
            rule: "a case = prior state of the key (absent/present/removed) x one commit with declared size in {len, len-1, len+1, 0, len+1MiB} and/or declared integrity in {correct, wrong digest, other algorithm, multi-hash} x chunking x entry point x flavour, followed by lookups through all flavours. Non-trivial = the declaration mismatched (a rejection was demanded); distinct by log hash. Also: options set twice (the last call counts), write_vectored, multi-hash declarations with a stronger correct hash (must be accepted), the true address of the bystander's value as a wrong declaration, and the abandon-chunk family under the system-call scheduler (a declared size equal to the bytes the writer acknowledged must be accepted)",
            assumptions: A_COMMON,
        },
        CheckSpec {
            id: "C09",
            engine: "opsim",
            level: "exploration",
            owns: &["removal", "lookup", "read-exact", "missing-content", "exists", "listing", "content-lost"],
            runs: (2000, 120_000),
            rule: "a case = seeded history (3-30 ops) over 2-8 keys sharing 1-3 values mixing writes with remove, remove_hash, remove_fully, clear; after every op a full audit (metadata, read, read_hash, exists of every key/address of the model, listing). Non-trivial = contains >= 1 successful removal of something present. A write that fails after a clear of the same history is a violation (the cleared cache must stay usable). 1 run in 10 removes neighbours in one content shard directory; 1 run in 16 is the own-writes family under the system-call scheduler (see C02); 1 run in 12 uses keys whose buckets share index directories (with a lazily consumed listing during which one of them is removed for good); clears come in a row, with a leaked temp file in tmp/, or on a cache whose content-v2 is a symlink",
            assumptions: A_COMMON,
        },
        CheckSpec {
            id: "C10",
            engine: "opsim",
            level: "exploration",
            owns: &["listing", "lookup"],
            runs: (2000, 100_000),
            rule: "a case = seeded history over 1-200 keys with several records per key and tombstones in any position; listing compared as a set with the model and field by field with lookup. Exhaustive core shared with C05. Non-trivial = listing of >= 2 entries after >= 1 tombstone or re-write. 1 run in 8 ends with a torn tail or a foreign record (valid checksum, integrity text that does not parse) in some bucket: listing and lookup must still agree entry by entry",
            assumptions: A_COMMON,
        },
        CheckSpec {
            id: "C11",
            engine: "opsim",
            level: "exploration",
            owns: &["meta-fields", "lookup", "listing", "write-ok", "commit-accept"],
            runs: (3000, 200_000),
            rule: "a case = writes with generated key / time (u128 corners) / JSON metadata (depth <= 4, control+non-ASCII strings, 64-bit integer corners, short decimals) / raw metadata / declared size through every write entry point and flavour, with the simulated wall clock moved between open and commit; every field compared on lookup and listing. Non-trivial = >= 1 non-default metadata field or a default-time/default-size check was exercised",
            assumptions: A_COMMON,
        },
        CheckSpec {
            id: "C12",
            engine: "tri",
            level: "exploration",
            owns: &["flavour-diff"],
            runs: (2500, 60_000),
            rule: "a case = one program (writes with option combinations, reads, extractions, removals, listing, damage steps between ops) executed three times on three fresh caches through the pure sync, async-std and tokio flavours; per-step result records and the final decoded caches must agree. Non-trivial = program has >= 3 API steps incl. >= 1 write; distinct by program hash. Programs include clear followed by further writes, declared integrities of other algorithms (true and false digests, multi-hash), sizes off by one, garbage lines and foreign records with unparsable integrity in buckets, correctly checksummed lines whose JSON text has a TAB as whitespace, stray files in the cache when it is cleared, index paths that do not resolve",
            assumptions: A_COMMON,
        },
        CheckSpec {
            id: "C14",
            engine: "opsim",
            level: "exploration",
            owns: &["abandon-trace", "lookup", "listing", "read-exact", "missing-content"],
            runs: (2500, 120_000),
            rule: "a case = writers abandoned after creation / after k chunks / while a background write is in flight (async poll-once-then-drop) / after flush / after close / after a rejected commit, interleaved with successful ops; index snapshot before vs after and tmp/ drained. Non-trivial = >= 1 writer abandoned after receiving data. Rejections by a declared size smaller or larger than the data (both sides of 1 MiB) and by a declared integrity that names nothing or names another stored value. Families under the system-call scheduler: abandoned async writers and cancelled futures with their pool threads scheduled, commits failing on every call x errno, and one write future dropped after a single poll followed by shorter writes (abandon-chunk). The library's own listing (keys and number of error items) is taken before and after every abandoned writer and must not change; where the history says there is no index yet, an abandoned or rejected writer must not create it",
            assumptions: A_COMMON,
        },
        CheckSpec {
            id: "C16",
            engine: "opsim",
            level: "exploration",
            owns: &["address", "content-integrity", "content-lost", "read-exact", "checked-read", "exists", "write-ok", "commit-accept", "serializability", "partial-record"],
            runs: (2500, 120_000),
            rule: "a case = history re-writing 1-2 values under several keys, algorithms, entry points and flavours; returned address compared with the simulator's digest; content area compared with the model (one file per address, bytes intact); optional damage of one algorithm's copy. Non-trivial = the same bytes were written at least twice. Families under the system-call scheduler: 2-3 concurrent writers of identical content (serialisability oracle; every two-switch schedule for a re-writer against a reader by address) and abandon-chunk (a write future dropped after one poll, shorter writes after it: the committed address must name a file holding exactly those bytes)",
            assumptions: A_COMMON,
        },
        CheckSpec {
            id: "C17",
            engine: "opsim",
            level: "exploration",
            owns: &["format", "lookup", "listing", "read-exact", "content-lost"],
            runs: (2500, 120_000),
            rule: "a case = history alternating library writes (3 flavours) and records appended by the simulator's independent writer; raw bucket bytes must equal the reference encoding of the model's insert sequence, the independent decode must equal the model, and library lookups of reference-written records must equal the model. Non-trivial = >= 2 records in some bucket. 1 run in 16 is the own-writes family under the system-call scheduler (an acknowledged record must be in the bucket when the caller's next call looks)",
            assumptions: A_COMMON,
        },
        CheckSpec {
            id: "C18",
            engine: "opsim",
            level: "fault_enumeration",
            owns: &["extract", "extract-leftover", "checked-read", "content-integrity"],
            runs: (2500, 120_000),
            rule: "a case = stored value x (pristine | one damage class of C01 | content missing | key missing) x every extraction entry point (copy/hard_link/reflink, checked/unchecked, key/address, 5 flavours) x destination (absent, existing file, directory, inside cache). Non-trivial = an extraction ran against damaged or missing content, or succeeded and was compared byte-for-byte; existing destinations are longer than the data or exactly as long with other bytes, or the destination of an earlier extraction of the same run (possibly a hard link to the content file); reflink runs through the FICLONE stub of the system-call simulator; destinations that are symlinks to the entry's own content file; a key attached by a raw index record without a size; after the extractions the entry is sometimes removed, the cache cleared or the value re-written, and every file an extraction handed out must still hold what was delivered",
            assumptions: A_COMMON,
        },
        CheckSpec {
            id: "C19",
            engine: "opsim",
            level: "exploration",
            owns: &["linkto", "read-exact", "checked-read", "lookup", "meta-fields", "missing-content"],
            runs: (2500, 100_000),
            rule: "a case = link_to of a target (0 B .. 40 KiB; absolute or relative path with the worker's cwd changed) through every link entry point with partial reads before commit and right/wrong declared size/integrity, then target modified / truncated / removed / replaced / restored, reads by key and address. Non-trivial = a link was committed and read back or rejected; targets spelled through a directory symlink followed by '..' (with and without a decoy at the textually folded path); extractions whose destination is the linked file itself; twin targets with identical bytes, relinking after the first target is gone; read-only targets (bytes and permission bits of every target are compared at the end); a silent same-length change of the target followed by a re-link of the same key; declared integrities of other algorithms that are digests of other data (must be rejected)",
            assumptions: A_COMMON,
        },
        CheckSpec {
            id: "C20",
            engine: "opsim",
            level: "exploration",
            owns: &["no-panic", "fault-surface"],
            runs: (3000, 200_000),
            rule: "a case = a hostile program: zero-length data through every entry point, declared-size data in several chunks, more/fewer bytes than declared on both sides of 1 MiB, odd on-disk states (bucket path is a directory, content path is a directory, tmp or index-v5 is a regular file, cache root missing or a file, stray files), every call under catch_unwind and a watchdog. Non-trivial = >= 1 misuse or odd-state step executed; foreign records with a valid checksum whose integrity text does not parse; stray lock-/temp-like files next to buckets; top-level cache directories that are symlinks; index lines that are well-formed UTF-8 with a multi-byte character across the checksum/tab boundary; 1 run in 16 is the abandon-chunk family under the system-call scheduler (a write future dropped in flight, then write_all with shorter buffers)",
            assumptions: A_COMMON,
        },
    ]
}

pub fn spec(id: &str) -> Option<CheckSpec> {
    specs().into_iter().find(|s| s.id == id)
}

pub fn exhaustive_count(id: &str, tier: &str) -> u64 {
    match (id, tier) {
        ("C05", "quick") | ("C10", "quick") => 6 + 36 + 216 + 1296,
        ("C05", _) | ("C10", _) => 6 + 36 + 216 + 1296 + 7776,
        ("C01", t) => gen2::c01_exhaustive_count(t),
        ("C06", t) => gen2::c06_exhaustive_count(t),
        _ => 0,
    }
}

pub fn generate(id: &str, tier: &str, r: u64, rng: &mut Rng) -> Value {
    let mut sc = generate_inner(id, tier, r, rng);
    // paths that are not valid UTF-8: the whole scratch root of the run (cache, destinations, link targets), or only
    // the cache directory's own name
    if sc.get("engine").is_none() && sc.get("cache_style").is_none() && !matches!(id, "C12") {
        match r % 32 {
            13 => sc["cache_style"] = serde_json::json!("odd_root"),
            29 => sc["cache_style"] = serde_json::json!("odd_cache"),
            _ => {}
        }
    }
    // a sample of the format/digest runs is cross-checked against the independent python implementation
    if matches!(id, "C16" | "C17") && r % 64 == 5 && sc.get("engine").is_none() {
        sc["xcheck"] = serde_json::json!(true);
    }
    sc
}

fn generate_inner(id: &str, tier: &str, r: u64, rng: &mut Rng) -> Value {
    let ex = exhaustive_count(id, tier);
    // scenario families that need the system-call simulator inside otherwise history-driven checks
    if r >= ex {
        let k = (r - ex) % 16;
        match (id, k) {
            ("C18", 3) | ("C18", 11) | ("C01", 7) => return crate::sysim::generate_family("reflink", id, tier, rng),
            ("C14", 5) | ("C14", 13) => return crate::sysim::generate_family("abandon", id, tier, rng),
            ("C16", 9) => return crate::sysim::generate_family("same-content", id, tier, rng),
            ("C02", 3) | ("C02", 11) | ("C05", 7) | ("C09", 5) | ("C17", 3) => return crate::sysim::generate_family("own-writes", id, tier, rng),
            ("C20", 6) | ("C16", 4) | ("C14", 9) | ("C08", 7) => return crate::sysim::generate_family("abandon-chunk", id, tier, rng),
            _ => {}
        }
    }
    match id {
        "C02" => gen::gen_c02(rng),
        "C05" | "C10" if r < ex => {
            // decode r into (length, index)
            let mut rr = r;
            let mut len = 1u32;
            let mut n = 6u64;
            while rr >= n {
                rr -= n;
                len += 1;
                n *= 6;
            }
            let mut sc = gen::gen_c05_exhaustive(rr, len, rng);
            sc["check"] = serde_json::json!(id);
            sc
        }
        "C05" => gen::gen_c05(rng),
        "C09" => gen::gen_c09(rng),
        "C10" => gen::gen_c10(rng),
        "C16" => gen::gen_c16(rng),
        "C17" => gen::gen_c17(rng),
        "C01" => gen2::gen_c01(tier, r, ex, rng),
        "C06" => gen2::gen_c06(tier, r, ex, rng),
        "C08" => gen2::gen_c08(rng),
        "C11" => gen2::gen_c11(rng),
        "C12" => gen2::gen_c12(rng),
        "C14" => gen2::gen_c14(rng),
        "C18" => gen2::gen_c18(rng),
        "C19" => gen2::gen_c19(rng),
        "C20" => gen2::gen_c20(rng),
        _ => serde_json::json!({"check": id, "keys": [], "vals": [], "steps": []}),
    }
}

fn count_steps(sc: &Value, pred: &dyn Fn(&Value) -> bool) -> usize {
    sc["steps"].as_array().map(|a| a.iter().filter(|s| pred(s)).count()).unwrap_or(0)
}

/// per-check rule deciding whether a run was non-trivial (measured on the run itself)
pub fn nontrivial(id: &str, sc: &Value, out: &Outcome) -> bool {
    let p = |n: &str| out.probes.get(n).cloned().unwrap_or(0);
    let ok_writes = out.log.iter().filter(|l| l["s"]["op"] == "write" && l["r"]["r"] == "ok").count();
    match id {
        "C01" => p("damaged_content_opened") + p("damaged_content_extracted") > 0,
        "C02" => ok_writes >= 1 && out.log.iter().any(|l| (l["s"]["op"] == "read" || l["s"]["op"] == "reader") && l["r"]["r"] == "ok"),
        "C05" => {
            let mut seen = std::collections::BTreeSet::new();
            let mut hit = false;
            for l in &out.log {
                let op = l["s"]["op"].as_str().unwrap_or("");
                if (op == "write" || op == "remove") && l["r"]["r"] == "ok" {
                    let k = l["s"]["key"].to_string();
                    if !seen.insert(k) {
                        hit = true;
                    }
                }
            }
            hit
        }
        "C06" => out.faults.keys().any(|k| k.starts_with("bucket.")) && p("bucket_nonempty_damaged") > 0,
        "C08" => p("commit_rejected") > 0,
        "C09" => out.log.iter().any(|l| matches!(l["s"]["op"].as_str(), Some("remove") | Some("remove_hash") | Some("remove_opts") | Some("clear")) && l["r"]["r"] == "ok") && ok_writes >= 1,
        "C10" => p("listing_multi") > 0 && count_steps(sc, &|s| s["op"] == "remove" || s["op"] == "remove_opts") > 0,
        "C11" => ok_writes >= 1,
        "C12" => count_steps(sc, &|s| s["k"] == "api") >= 3 && count_steps(sc, &|s| s["op"] == "write") >= 1,
        "C14" => p("abandoned_with_data") > 0 || p("commit_rejected") > 0,
        "C16" => ok_writes >= 2,
        "C17" => ok_writes >= 1 && out.log.len() >= 2,
        "C18" => out.log.iter().any(|l| matches!(l["s"]["op"].as_str(), Some("copy") | Some("copy_unchecked") | Some("hard_link") | Some("hard_link_unchecked") | Some("reflink") | Some("reflink_unchecked"))),
        "C19" => p("symlink_created") > 0 || out.log.iter().any(|l| l["s"]["op"] == "link_to"),
        "C20" => p("hostile_step") > 0 || out.log.len() >= 2,
        _ => true,
    }
}
