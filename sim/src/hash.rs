// Digests, SRI strings and on-disk paths, implemented independently of cacache/ssri.
use base64::Engine;
use sha2::Digest;
use std::path::{Path, PathBuf};

pub const ALGOS: [&str; 5] = ["sha1", "sha256", "sha384", "sha512", "xxh3"];

pub fn digest(algo: &str, data: &[u8]) -> Vec<u8> {
    match algo {
        "sha1" => sha1::Sha1::digest(data).to_vec(),
        "sha256" => sha2::Sha256::digest(data).to_vec(),
        "sha384" => sha2::Sha384::digest(data).to_vec(),
        "sha512" => sha2::Sha512::digest(data).to_vec(),
        "xxh3" => xxhash_rust::xxh3::xxh3_128(data).to_be_bytes().to_vec(),
        _ => panic!("unknown algorithm {algo}"),
    }
}

pub fn sha256_hex(data: &[u8]) -> String {
    hex::encode(sha2::Sha256::digest(data))
}

pub fn sha1_hex(data: &[u8]) -> String {
    hex::encode(sha1::Sha1::digest(data))
}

pub fn sri(algo: &str, data: &[u8]) -> String {
    format!("{}-{}", algo, base64::prelude::BASE64_STANDARD.encode(digest(algo, data)))
}

/// (algo, hex) of the FIRST hash of an sri string (hashes are space separated)
pub fn sri_hex(sri: &str) -> Option<(String, String)> {
    let first = sri.split_whitespace().next()?;
    let (a, b) = first.split_once('-')?;
    let raw = base64::prelude::BASE64_STANDARD.decode(b).ok()?;
    Some((a.to_string(), hex::encode(raw)))
}

pub fn content_rel(sri: &str) -> Option<String> {
    let (a, h) = sri_hex(sri)?;
    if h.len() < 5 {
        return None;
    }
    Some(format!("content-v2/{}/{}/{}/{}", a, &h[0..2], &h[2..4], &h[4..]))
}

pub fn content_path(cache: &Path, sri: &str) -> PathBuf {
    cache.join(content_rel(sri).expect("well-formed sri"))
}

pub fn bucket_rel(key: &str) -> String {
    let h = sha1_hex(key.as_bytes());
    format!("index-v5/{}/{}/{}", &h[0..2], &h[2..4], &h[4..])
}

pub fn bucket_path(cache: &Path, key: &str) -> PathBuf {
    cache.join(bucket_rel(key))
}
