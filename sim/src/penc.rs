// Path strings inside the simulator (scenario files, worker protocol, system-call traces) are ordinary UTF-8 strings.
// A path byte that is not part of a valid UTF-8 sequence travels as one private-use character U+F780..U+F7FF, so that a
// directory whose name is not valid UTF-8 stays byte-exact everywhere (a lossy conversion would make `cache-\xff` and
// the directory literally named `cache-\u{FFFD}` indistinguishable - which is exactly the bug class this is for).
use std::path::{Path, PathBuf};

pub fn penc_bytes(b: &[u8]) -> String {
    let mut out = String::with_capacity(b.len());
    let mut rest = b;
    loop {
        match std::str::from_utf8(rest) {
            Ok(s) => {
                out.push_str(s);
                return out;
            }
            Err(e) => {
                let (good, bad) = rest.split_at(e.valid_up_to());
                out.push_str(unsafe { std::str::from_utf8_unchecked(good) });
                out.push(char::from_u32(0xF700 + bad[0] as u32).unwrap());
                rest = &bad[1..];
            }
        }
    }
}

pub fn penc(p: &Path) -> String {
    use std::os::unix::ffi::OsStrExt;
    penc_bytes(p.as_os_str().as_bytes())
}

pub fn pdec(s: &str) -> PathBuf {
    use std::os::unix::ffi::OsStringExt;
    let mut b = Vec::with_capacity(s.len());
    for c in s.chars() {
        let u = c as u32;
        if (0xF780..=0xF7FF).contains(&u) {
            b.push((u - 0xF700) as u8);
        } else {
            let mut buf = [0u8; 4];
            b.extend_from_slice(c.encode_utf8(&mut buf).as_bytes());
        }
    }
    PathBuf::from(std::ffi::OsString::from_vec(b))
}
