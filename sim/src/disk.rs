// Direct inspection of a cache directory by the simulator's own code (never through the library).
use std::collections::BTreeMap;
use std::path::{Path, PathBuf};

use crate::fmt;
use crate::hash;

#[derive(Clone, Debug, PartialEq)]
pub enum FileKind {
    Regular,
    Symlink,
    Dir,
    Other,
}

#[derive(Clone, Debug)]
pub struct ContentFile {
    pub rel: String,
    pub kind: FileKind,
    pub len: u64,
    pub digest_ok: bool, // bytes hash (by the algorithm in the path) to the path
    pub well_placed: bool, // path has the content-v2/<algo>/xx/yy/rest shape with a known algo
    pub sha256: String,
}

#[derive(Clone, Debug, Default)]
pub struct Disk {
    pub content: Vec<ContentFile>,
    pub buckets: BTreeMap<String, Vec<u8>>, // rel path -> raw bytes
    pub tmp: Vec<String>,                   // files under tmp/
    pub other: Vec<String>,                 // anything else directly under the cache root
    pub dirs: Vec<String>,
}

fn walk(base: &Path, dir: &Path, out: &mut Vec<(String, FileKind)>, follow_top: bool) {
    let rd = match std::fs::read_dir(dir) {
        Ok(r) => r,
        Err(_) => return,
    };
    let mut names: Vec<PathBuf> = rd.flatten().map(|e| e.path()).collect();
    names.sort();
    for p in names {
        let md = match std::fs::symlink_metadata(&p) {
            Ok(m) => m,
            Err(_) => continue,
        };
        let rel = p.strip_prefix(base).unwrap().to_string_lossy().to_string();
        let ft = md.file_type();
        if ft.is_symlink() && follow_top && dir == base && p.is_dir() {
            // a top-level directory of the cache that lives elsewhere and is linked back
            out.push((rel.clone(), FileKind::Dir));
            walk(base, &p, out, false);
        } else if ft.is_symlink() {
            out.push((rel, FileKind::Symlink));
        } else if ft.is_dir() {
            out.push((rel.clone(), FileKind::Dir));
            walk(base, &p, out, follow_top);
        } else if ft.is_file() {
            out.push((rel, FileKind::Regular));
        } else {
            out.push((rel, FileKind::Other));
        }
    }
}

pub fn check_content_file(cache: &Path, rel: &str, kind: FileKind) -> ContentFile {
    let parts: Vec<&str> = rel.split('/').collect();
    let mut cf = ContentFile { rel: rel.to_string(), kind: kind.clone(), len: 0, digest_ok: false, well_placed: false, sha256: String::new() };
    // content-v2/<algo>/xx/yy/rest
    if parts.len() == 5 && parts[0] == "content-v2" && hash::ALGOS.contains(&parts[1]) && parts[2].len() == 2 && parts[3].len() == 2 {
        cf.well_placed = true;
    }
    if kind == FileKind::Regular || kind == FileKind::Symlink {
        if let Ok(b) = std::fs::read(cache.join(rel)) {
            cf.len = b.len() as u64;
            cf.sha256 = hash::sha256_hex(&b);
            if cf.well_placed {
                let hexd = hex::encode(hash::digest(parts[1], &b));
                cf.digest_ok = hexd == format!("{}{}{}", parts[2], parts[3], parts[4]);
            }
        }
    }
    cf
}

pub fn scan(cache: &Path) -> Disk {
    let mut d = Disk::default();
    let mut all = Vec::new();
    walk(cache, cache, &mut all, true);
    for (rel, kind) in all {
        if kind == FileKind::Dir {
            d.dirs.push(rel);
            continue;
        }
        if rel.starts_with("content-v2/") {
            d.content.push(check_content_file(cache, &rel, kind));
        } else if rel.starts_with("index-v5/") {
            let b = std::fs::read(cache.join(&rel)).unwrap_or_default();
            d.buckets.insert(rel, b);
        } else if rel.starts_with("tmp/") {
            d.tmp.push(rel);
        } else {
            d.other.push(rel);
        }
    }
    d
}

impl Disk {
    pub fn bucket_lines(&self, key: &str) -> Vec<fmt::Line> {
        match self.buckets.get(&hash::bucket_rel(key)) {
            Some(b) => fmt::parse_bucket(b),
            None => Vec::new(),
        }
    }
    /// every live entry of the whole index according to the simulator's decoder
    pub fn live_entries(&self) -> BTreeMap<String, fmt::Rec> {
        let mut m: BTreeMap<String, fmt::Rec> = BTreeMap::new();
        for (_rel, b) in &self.buckets {
            for l in fmt::parse_bucket(b) {
                if let Some(r) = l.rec {
                    if r.integrity.is_some() {
                        m.insert(r.key.clone(), r);
                    } else {
                        m.remove(&r.key);
                    }
                }
            }
        }
        m
    }
}

pub fn tree_digest(root: &Path) -> String {
    // order-independent summary of a directory tree (names, kinds, bytes) used for "nothing else changed"
    let mut all = Vec::new();
    walk(root, root, &mut all, false);
    let mut s = String::new();
    for (rel, kind) in all {
        s.push_str(&rel);
        s.push('|');
        match kind {
            FileKind::Regular => {
                let b = std::fs::read(root.join(&rel)).unwrap_or_default();
                s.push_str(&hash::sha256_hex(&b));
            }
            FileKind::Symlink => {
                s.push_str("L:");
                s.push_str(&std::fs::read_link(root.join(&rel)).map(|p| p.to_string_lossy().to_string()).unwrap_or_default());
            }
            FileKind::Dir => s.push('D'),
            FileKind::Other => s.push('O'),
        }
        s.push('\n');
    }
    hash::sha256_hex(s.as_bytes())
}
