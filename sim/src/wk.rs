// Client side of the worker protocol: a persistent `cv-worker --serve` child with a watchdog.
use serde_json::{json, Value};
use std::io::Write;
use std::os::unix::io::AsRawFd;
use std::path::{Path, PathBuf};
use std::process::{Child, ChildStdin, ChildStdout, Command, Stdio};

pub struct Worker {
    pub flavour: String,
    bin: PathBuf,
    cwd: PathBuf,
    child: Option<Child>,
    stdin: Option<ChildStdin>,
    stdout: Option<ChildStdout>,
    buf: Vec<u8>,
    pub watchdog_ms: i32,
    pub spawns: u64,
}

pub fn worker_bin(dir: &Path, flavour: &str) -> PathBuf {
    dir.join(flavour).join("target/release/cv-worker")
}

impl Worker {
    pub fn new(workers_dir: &Path, flavour: &str, cwd: &Path) -> Worker {
        Worker {
            flavour: flavour.to_string(),
            bin: worker_bin(workers_dir, flavour),
            cwd: cwd.to_path_buf(),
            child: None,
            stdin: None,
            stdout: None,
            buf: Vec::new(),
            watchdog_ms: 90_000,
            spawns: 0,
        }
    }

    fn ensure(&mut self) -> Result<(), String> {
        if self.child.is_some() {
            return Ok(());
        }
        let mut c = Command::new(&self.bin)
            .arg("--serve")
            .current_dir(&self.cwd)
            .env("ASYNC_STD_THREAD_COUNT", "2")
            .env_remove("TMPDIR")
            .stdin(Stdio::piped())
            .stdout(Stdio::piped())
            .stderr(Stdio::null())
            .spawn()
            .map_err(|e| format!("cannot spawn worker {}: {e}", self.bin.display()))?;
        self.stdin = c.stdin.take();
        self.stdout = c.stdout.take();
        self.child = Some(c);
        self.buf.clear();
        self.spawns += 1;
        Ok(())
    }

    pub fn kill(&mut self) {
        if let Some(mut c) = self.child.take() {
            let _ = c.kill();
            let _ = c.wait();
        }
        self.stdin = None;
        self.stdout = None;
        self.buf.clear();
    }

    /// Send one op, wait for one result line. A missing answer within the watchdog is a hang;
    /// a closed pipe is an abnormal termination of the worker (abort / signal).
    pub fn call(&mut self, op: &Value) -> Value {
        if let Err(e) = self.ensure() {
            return json!({"r":"harness","msg":e});
        }
        let line = format!("{}\n", op);
        if self.stdin.as_mut().unwrap().write_all(line.as_bytes()).is_err() {
            let st = self.reap();
            return json!({"r":"died","status":st});
        }
        let _ = self.stdin.as_mut().unwrap().flush();
        let fd = self.stdout.as_ref().unwrap().as_raw_fd();
        let start = std::time::Instant::now();
        loop {
            if let Some(pos) = self.buf.iter().position(|&b| b == b'\n') {
                let l: Vec<u8> = self.buf.drain(..=pos).collect();
                return match serde_json::from_slice::<Value>(&l[..l.len() - 1]) {
                    Ok(v) => v,
                    Err(e) => json!({"r":"harness","msg":format!("bad worker output: {e}")}),
                };
            }
            let left = self.watchdog_ms as i64 - start.elapsed().as_millis() as i64;
            if left <= 0 {
                self.kill();
                return json!({"r":"hang","msg":"no answer within the watchdog; worker killed"});
            }
            let mut p = libc::pollfd { fd, events: libc::POLLIN, revents: 0 };
            let rc = unsafe { libc::poll(&mut p, 1, left.min(1000) as i32) };
            if rc > 0 {
                let mut tmp = [0u8; 65536];
                let n = unsafe { libc::read(fd, tmp.as_mut_ptr() as *mut libc::c_void, tmp.len()) };
                if n > 0 {
                    self.buf.extend_from_slice(&tmp[..n as usize]);
                } else if n == 0 {
                    let st = self.reap();
                    return json!({"r":"died","status":st});
                }
            }
        }
    }

    fn reap(&mut self) -> String {
        let st = match self.child.take() {
            Some(mut c) => match c.wait() {
                Ok(s) => format!("{s}"),
                Err(e) => format!("wait failed: {e}"),
            },
            None => "gone".into(),
        };
        self.stdin = None;
        self.stdout = None;
        self.buf.clear();
        st
    }
}

impl Drop for Worker {
    fn drop(&mut self) {
        self.kill();
    }
}
