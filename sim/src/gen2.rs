// Generators for the fault / option / misuse oriented checks.
use serde_json::{json, Value};

use crate::gen::*;
use crate::prng::Rng;

fn vlen(vals: &[Value], vi: usize) -> u64 {
    vals[vi]["len"].as_u64().unwrap_or(0)
}

fn all_flav_audit(what: &[&str]) -> Vec<Value> {
    FLAVS.iter().map(|f| json!({"k":"audit","bin":f.0,"mode":f.1,"what":what})).collect()
}

// ------------------------------------------------------------------------------------------ C01
const C01_QUICK_SIZES: [u64; 2] = [3, 24];
const C01_THOROUGH_SIZES: [u64; 4] = [1, 9, 33, 64];
const C01_QUICK_ALGOS: [&str; 2] = ["sha256", "xxh3"];

fn c01_space(tier: &str) -> (Vec<u64>, Vec<&'static str>) {
    if tier == "quick" {
        (C01_QUICK_SIZES.to_vec(), C01_QUICK_ALGOS.to_vec())
    } else {
        (C01_THOROUGH_SIZES.to_vec(), ALGOS.to_vec())
    }
}

pub fn c01_exhaustive_count(tier: &str) -> u64 {
    let (sizes, algos) = c01_space(tier);
    sizes.iter().map(|n| 9 * n).sum::<u64>() * algos.len() as u64
}

/// every checked retrieval entry point, by key and by address
fn checked_retrievals(rng: &mut Rng, ki: usize, vi: usize, algo: &str, f: (&str, &str), tag: &str, len: u64, exact: u64) -> Vec<Value> {
    let addr = json!({"val":vi,"algo":algo});
    // tiny buffers only for values that stay cheap to stream (a 1-byte buffer over 1 MiB is a million reads)
    let buf = pick_buf(rng, len);
    let mut v = vec![
        json!({"k":"api","op":"read","key":ki}),
        json!({"k":"api","op":"read","addr":addr}),
        json!({"k":"api","op":"reader","key":ki,"bufs":[buf],"eof_reads":rng.below(3)}),
        // buffer sizes alternate (sometimes with an empty buffer in between, which reads 0 bytes without being the end)
        json!({"k":"api","op":"reader","addr":addr,"bufs": if rng.chance(1, 3) && len <= 4096 { json!([buf, 0, 3]) } else { json!([buf, if len > 4096 { 4096 } else { 3 }]) },"eof_reads":rng.below(2)}),
        json!({"k":"api","op":"reader","key":ki,"bufs":[4096],"to_end":*rng.pick(&[0u64, 3, 100])}),
        // exactly the stored length first, then an empty buffer (reads nothing, is not the end), then whatever follows
        json!({"k":"api","op":"reader","addr":addr,"bufs":[exact.clamp(1, 1 << 20), 0, 64],"eof_reads":rng.below(2)}),
        json!({"k":"api","op":"copy","key":ki,"to":format!("$O/{tag}-ck")}),
        json!({"k":"api","op":"copy","addr":addr,"to":format!("$O/{tag}-ca")}),
        json!({"k":"api","op":"hard_link","key":ki,"to":format!("$O/{tag}-hk")}),
        json!({"k":"api","op":"hard_link","addr":addr,"to":format!("$O/{tag}-ha")}),
        json!({"k":"api","op":"reflink","key":ki,"to":format!("$O/{tag}-rk")}),
        json!({"k":"api","op":"reflink","addr":addr,"to":format!("$O/{tag}-ra")}),
    ];
    for s in v.iter_mut() {
        set_flav(s, f);
    }
    v
}

pub fn gen_c01(tier: &str, r: u64, ex: u64, rng: &mut Rng) -> Value {
    if r < ex {
        // decode r -> (algo, size, damage)
        let (sizes, algos) = c01_space(tier);
        let per_algo: u64 = sizes.iter().map(|n| 9 * n).sum();
        let algo = algos[(r / per_algo) as usize];
        let mut x = r % per_algo;
        let mut size = sizes[0];
        for n in &sizes {
            if x < 9 * n {
                size = *n;
                break;
            }
            x -= 9 * n;
        }
        let dmg = if x < 8 * size { json!({"k":"env","act":"flip","content":{"val":0,"algo":algo},"byte":x / 8,"bit":x % 8}) } else { json!({"k":"env","act":"truncate","content":{"val":0,"algo":algo},"len":x - 8 * size}) };
        let vals = vec![json!({"seed": 0x1111_2222_3333u64 + size, "len": size}), json!({"seed": 77, "len": 12})];
        let mut steps = Vec::new();
        let mut w = json!({"k":"api","op":"write","entry":"write_algo","algo":algo,"key":0,"val":0});
        set_flav(&mut w, flav(rng));
        steps.push(w);
        let mut w2 = json!({"k":"api","op":"write","entry":"write_algo","algo":algo,"key":1,"val":1});
        set_flav(&mut w2, flav(rng));
        steps.push(w2);
        steps.push(dmg);
        for (i, f) in FLAVS.iter().enumerate() {
            steps.extend(checked_retrievals(rng, 0, 0, algo, *f, &format!("x{i}"), size, size));
        }
        // the undamaged sibling must still read back exactly
        let mut s = json!({"k":"api","op":"read","key":1});
        set_flav(&mut s, flav(rng));
        steps.push(s);
        let mut sc = scenario("C01", vec!["victim".into(), "sibling".into()], vals, steps, rng);
        sc["exhaustive_index"] = json!(r);
        return sc;
    }
    // seeded part
    let nv = rng.range(2, 3) as usize;
    let big = if rng.chance(1, 10) { 500_000 } else { 0 };
    let mut vals = mk_vals(rng, nv, big);
    // the victim must not be empty too often (damage to an empty file is mostly a no-op)
    if vals[0]["len"] == 0 && rng.chance(3, 4) {
        vals[0]["len"] = json!(rng.range(1, 5000));
    }
    let keys = pick_keys_p(rng, nv, 1, 3);
    let algo = *rng.pick(&ALGOS);
    let mut steps = Vec::new();
    for i in 0..nv {
        let mut w = json!({"k":"api","op":"write","entry":"write_algo","algo":algo,"key":i,"val":i});
        set_flav(&mut w, flav(rng));
        steps.push(w);
    }
    let len = vlen(&vals, 0);
    let maxlen = (0..nv).map(|i| vlen(&vals, i)).max().unwrap_or(0);
    let c0 = json!({"val":0,"algo":algo});
    let c1 = json!({"val":1,"algo":algo});
    // some extractions happen while the content is still pristine and are repeated to the same destination after the damage
    let mut repeat_after: Vec<Value> = Vec::new();
    if rng.chance(1, 3) {
        let f = flav(rng);
        let mut pre = vec![
            json!({"k":"api","op":"hard_link","key":0,"to":"$O/pre-hk"}),
            json!({"k":"api","op":"hard_link","addr":c0,"to":"$O/pre-ha"}),
            json!({"k":"api","op":"copy","key":0,"to":"$O/pre-ck"}),
            json!({"k":"api","op":"copy","addr":c0,"to":"$O/pre-ca"}),
        ];
        rng.shuffle(&mut pre);
        pre.truncate(rng.range(1, 3) as usize);
        if rng.chance(1, 3) {
            // a checked copy whose destination is the hard link an extraction has just made (the same file)
            pre = vec![json!({"k":"api","op":"hard_link","key":0,"to":"$O/pre-same"}), json!({"k":"api","op":"copy","key":0,"to":"$O/pre-same"})];
        }
        for p in pre.iter_mut() {
            set_flav(p, f);
            if rng.chance(1, 3) && p["to"] != "$O/pre-same" {
                // the destination exists already and is longer than the value
                steps.push(json!({"k":"env","act":"write_file","path":p["to"].clone(),"hex":"ee".repeat(if rng.chance(1, 2) { (len as usize + 10).min(5000) } else { (len as usize).min(5000) })}));
            }
        }
        steps.extend(pre.clone());
        // the repetition runs in the same process half of the time (state kept inside one process matters then)
        if rng.chance(1, 2) {
            for p in pre.iter_mut() {
                set_flav(p, flav(rng));
            }
        }
        repeat_after = pre;
    }
    let ndmg = if rng.chance(1, 5) { 2 } else { 1 };
    for _ in 0..ndmg {
        let d = match rng.below(10) {
            0 => json!({"k":"env","act":"flip","content":c0,"byte":rng.below(len.max(1)),"bit":rng.below(8),"keep_mtime":rng.chance(1,2)}),
            1 => json!({"k":"env","act":"truncate","content":c0,"len":rng.below(len.max(1))}),
            2 => json!({"k":"env","act":"extend","content":c0,"n":rng.range(1, 70),"seed":rng.below(1000)}),
            3 => json!({"k":"env","act":"truncate","content":c0,"len":0}),
            4 => json!({"k":"env","act":"garble","content":c0,"off":rng.below(len.max(1)),"n":rng.range(1, 64),"seed":rng.below(1000),"keep_mtime":rng.chance(1,2)}),
            5 => json!({"k":"env","act":"replace_with","content":c0,"target_content":c1}),
            6 => json!({"k":"env","act":"swap","content":c0,"target_content":c1}),
            7 => json!({"k":"env","act":"symlink_to","content":c0,"target_content":c1}),
            8 => json!({"k":"env","act":"delete","content":c0}),
            _ => json!({"k":"env","act":"flip","content":c0,"byte":len.saturating_sub(1),"bit":rng.below(8)}),
        };
        steps.push(d);
    }
    steps.extend(repeat_after);
    let nf = rng.range(1, 3);
    for i in 0..nf {
        let f = flav(rng);
        let mut ops = checked_retrievals(rng, 0, 0, algo, f, &format!("s{i}"), maxlen, len);
        // mid-stream damage: flip a byte of the file between two reads of a Reader
        if rng.chance(1, 3) && len > 16 {
            let mut m = json!({"k":"api","op":"reader","key":1,"bufs":[if maxlen > 4096 { 4096 } else { *rng.pick(&[1u64,7,64]) }],"mid_after":rng.range(1,2),"mid":{"act":"flip","content":c1,"byte":vlen(&vals,1).saturating_sub(1),"bit":1}});
            set_flav(&mut m, f);
            // the interpreter cannot know whether the flipped byte had been read already: mark the content damaged first
            steps.push(json!({"k":"env","act":"noop_mark_damaged","content":c1}));
            ops.push(m);
        }
        rng.shuffle(&mut ops);
        let keep = rng.range(3, ops.len() as u64) as usize;
        ops.truncate(keep);
        steps.extend(ops);
    }
    // an undamaged sibling copied over an existing, longer file: exactly the stored bytes afterwards
    if rng.chance(1, 3) {
        let l1 = vlen(&vals, 1);
        // longer than the value, or exactly as long (and newer than the content file) with other bytes
        let n = if rng.chance(1, 2) { l1 as usize + 1 + rng.below(40) as usize } else { l1 as usize };
        steps.push(json!({"k":"env","act":"write_file","path":"$O/longer","hex":"dd".repeat(n.min(6000))}));
        let mut s = if rng.chance(1, 2) { json!({"k":"api","op":"copy","key":1,"to":"$O/longer"}) } else { json!({"k":"api","op":"copy","addr":c1,"to":"$O/longer"}) };
        set_flav(&mut s, flav(rng));
        steps.push(s);
    }
    // a key attached to the (possibly damaged) content by a raw index record that carries no size
    if rng.chance(1, 6) {
        let mut ii = json!({"k":"api","op":"index_insert","key":keys.len() - 1,"opts":{"sri":c0.clone()}});
        set_flav(&mut ii, flav(rng));
        steps.push(ii);
        let f = flav(rng);
        for mut rd in [json!({"k":"api","op":"read","key":keys.len() - 1}), json!({"k":"api","op":"reader","key":keys.len() - 1,"bufs":[4096]}), json!({"k":"api","op":"copy","key":keys.len() - 1,"to":"$O/attached"})] {
            set_flav(&mut rd, f);
            steps.push(rd);
        }
    }
    // siblings untouched by the damage read back exactly (strict)
    if nv > 2 {
        let mut s = json!({"k":"api","op":"read","key":2});
        set_flav(&mut s, flav(rng));
        steps.push(s);
    }
    scenario("C01", keys, vals, steps, rng)
}

// ------------------------------------------------------------------------------------------ C18
pub fn gen_c18(rng: &mut Rng) -> Value {
    let nv = 2usize;
    let big = if rng.chance(1, 10) { 500_000 } else { 0 };
    let vals = mk_vals(rng, nv, big);
    let keys = pick_keys_p(rng, 3, 1, 4);
    let algo = *rng.pick(&ALGOS);
    let mut steps = Vec::new();
    for i in 0..nv {
        let mut w = json!({"k":"api","op":"write","entry":"write_algo","algo":algo,"key":i,"val":i});
        set_flav(&mut w, flav(rng));
        steps.push(w);
    }
    let len = vlen(&vals, 0);
    let c0 = json!({"val":0,"algo":algo});
    let c1 = json!({"val":1,"algo":algo});
    // extractions made while the content is pristine, repeated to the same destinations after the damage
    let mut repeat_after: Vec<Value> = Vec::new();
    if rng.chance(1, 4) {
        let f = flav(rng);
        let mut pre = vec![
            json!({"k":"api","op":"hard_link","key":0,"to":"$O/pre-hk"}),
            json!({"k":"api","op":"hard_link","addr":c0,"to":"$O/pre-ha"}),
            json!({"k":"api","op":"copy","key":0,"to":"$O/pre-ck"}),
            json!({"k":"api","op":"copy","addr":c0,"to":"$O/pre-ca"}),
        ];
        rng.shuffle(&mut pre);
        pre.truncate(rng.range(1, 3) as usize);
        for p in pre.iter_mut() {
            set_flav(p, f);
        }
        steps.extend(pre.clone());
        repeat_after = pre;
    }
    match rng.below(12) {
        0..=3 => {} // pristine
        4 => steps.push(json!({"k":"env","act":"flip","content":c0,"byte":rng.below(len.max(1)),"bit":rng.below(8),"keep_mtime":rng.chance(1,2)})),
        5 => steps.push(json!({"k":"env","act":"truncate","content":c0,"len":rng.below(len.max(1))})),
        6 => steps.push(json!({"k":"env","act":"extend","content":c0,"n":rng.range(1, 70),"seed":3})),
        7 => steps.push(json!({"k":"env","act":"replace_with","content":c0,"target_content":c1})),
        8 => steps.push(json!({"k":"env","act":"swap","content":c0,"target_content":c1})),
        9 => steps.push(json!({"k":"env","act":"symlink_to","content":c0,"target_content":c1})),
        10 => steps.push(json!({"k":"env","act":"delete","content":c0})),
        _ => steps.push(json!({"k":"api","op":"remove_hash","addr":c0,"bin":"sync","mode":"sync"})),
    }
    steps.extend(repeat_after);
    let attached = rng.chance(1, 6);
    if attached {
        // (keys[2] is otherwise the key that was never written)
        let mut ii = json!({"k":"api","op":"index_insert","key":2,"opts":{"sri":c0.clone()}});
        set_flav(&mut ii, flav(rng));
        steps.push(ii);
    }
    let ops = ["copy", "copy_unchecked", "hard_link", "hard_link_unchecked", "reflink", "reflink_unchecked"];
    let n = rng.range(3, 10);
    for i in 0..n {
        let op = *rng.pick(&ops);
        let by_key = rng.chance(1, 2);
        let dest = match rng.below(9) {
            8 if i > 0 => {
                // the destination of an earlier extraction of this run (possibly a hard link to the content file)
                format!("$O/f{}", rng.below(i))
            }
            0 => {
                // existing file: longer than the data, or exactly as long with other bytes
                let n = if rng.chance(1, 2) { (len as usize + 10).min(5000) } else { len as usize };
                steps.push(json!({"k":"env","act":"write_file","path":format!("$O/e{i}"),"hex":"ee".repeat(n)}));
                format!("$O/e{i}")
            }
            1 if rng.chance(1, 2) => {
                // a symlink (the caller's) that resolves to the entry's own content file
                steps.push(json!({"k":"env","act":"dir_symlink","path":format!("$O/sl{i}"),"target_content":c0.clone()}));
                format!("$O/sl{i}")
            }
            1 => {
                steps.push(json!({"k":"env","act":"mkdir","path":format!("$O/dir{i}")}));
                format!("$O/dir{i}")
            }
            2 => format!("$O/missing-dir{i}/x"),
            3 => format!("$C/extracted{i}"),
            _ => format!("$O/f{i}"),
        };
        let mut st = json!({"k":"api","op":op,"to":dest});
        let target_key = if rng.chance(1, 8) || (attached && rng.chance(1, 2)) { 2 } else { 0 }; // key 2: never written, or attached by a raw index record
        if rng.chance(1, 7) && !dest.contains("/sl") {
            // the OTHER entry, possibly onto a file an extraction of the first one has made (not through the caller's
            // symlink into the cache: what lands there would be the caller's doing)
            if by_key {
                st["key"] = json!(1);
            } else {
                st["addr"] = c1.clone();
            }
        } else if by_key {
            st["key"] = json!(target_key);
        } else {
            st["addr"] = c0.clone();
        }
        set_flav(&mut st, flav(rng));
        steps.push(st);
    }
    if rng.chance(1, 4) {
        // the entry is removed (or the cache cleared, or the value re-written) afterwards: what was extracted stays
        let mut rm = match rng.below(5) {
            0 => json!({"k":"api","op":"remove_hash","addr":c0.clone()}),
            1 => json!({"k":"api","op":"remove_opts","fully":true,"key":0}),
            2 => json!({"k":"api","op":"clear"}),
            3 => json!({"k":"api","op":"write","entry":"write_algo","algo":algo,"key":0,"val":0}),
            _ => json!({"k":"api","op":"remove","key":0}),
        };
        set_flav(&mut rm, flav(rng));
        steps.push(rm);
    }
    scenario("C18", keys, vals, steps, rng)
}

// ------------------------------------------------------------------------------------------ C06
const C06_BOUND: u64 = 420; // upper bound on the byte length of the enumerated buckets

pub fn c06_exhaustive_count(tier: &str) -> u64 {
    // shapes x (cuts + flips); quick: the two-writes shape and the shape ending in a tombstone
    let shapes = if tier == "quick" { 2 } else { 3 };
    shapes * (C06_BOUND + 8 * C06_BOUND)
}

fn c06_shape(shape: u64) -> (Vec<String>, Vec<Value>, Vec<Value>) {
    // returns keys, vals, building steps (flavours filled later)
    let keys = vec!["caf\u{e9}-\u{65e5}".to_string(), "other".to_string()];
    let vals = vec![json!({"seed": 21, "len": 10}), json!({"seed": 22, "len": 20}), json!({"seed": 23, "len": 5})];
    let w0 = json!({"k":"api","op":"write","entry":"opts","key":0,"val":0,"opts":{"time":"11","size":10,"meta":{"n":"\u{e9}"}}});
    let w1 = json!({"k":"api","op":"write","entry":"opts","key":0,"val":1,"opts":{"time":"12","size":20}});
    let rm = json!({"k":"api","op":"remove","key":0});
    let steps = match shape {
        0 => vec![w0, w1],
        1 => vec![w0, rm, w1],
        _ => vec![w1, w0, rm],
    };
    (keys, vals, steps)
}

pub fn gen_c06(tier: &str, r: u64, ex: u64, rng: &mut Rng) -> Value {
    if r < ex {
        let per = C06_BOUND + 8 * C06_BOUND;
        let shape = if tier == "quick" { [0u64, 2][(r / per) as usize % 2] } else { r / per };
        let x = r % per;
        let (keys, vals, mut steps) = c06_shape(shape);
        for s in steps.iter_mut() {
            set_flav(s, flav(rng));
        }
        // the bucket has been looked at (by some process that stays alive) before the damage happens
        if x % 3 == 0 {
            let f = flav(rng);
            steps.push(json!({"k":"audit","bin":f.0,"mode":f.1,"what":["metadata","list"]}));
        }
        if x < C06_BOUND {
            steps.push(json!({"k":"env","act":"truncate","bucket":0,"len":x,"only_if_shorter":true}));
        } else {
            let y = x - C06_BOUND;
            steps.push(json!({"k":"env","act":"flip","bucket":0,"byte":y / 8,"bit":y % 8,"only_if_inside":true}));
        }
        steps.extend(all_flav_audit(&["metadata", "read", "list"]));
        // further append after the damage, then audit again
        let mut w = json!({"k":"api","op":"write","entry":"opts","key":0,"val":2,"opts":{"time":"13","size":5}});
        set_flav(&mut w, flav(rng));
        steps.push(w);
        steps.extend(all_flav_audit(&["metadata", "read", "list"]));
        let mut sc = scenario("C06", keys, vals, steps, rng);
        sc["clock0"] = json!("1600000000000");
        sc["exhaustive_index"] = json!(r);
        let _ = tier;
        return sc;
    }
    let nk = rng.range(1, 2) as usize;
    let keys = pick_keys(rng, nk + 1, true);
    let vals = mk_vals(rng, 3, 0);
    let mut steps = Vec::new();
    let nrec = rng.range(1, 5);
    let wcfg = WriteCfg { by_hash_pct: 0, rich_opts: true, declare_size_pct: 30, algos: false, ends: false };
    for _ in 0..nrec {
        let ki = rng.idx(nk);
        let mut st = if rng.chance(1, 4) { json!({"k":"api","op":"remove","key":ki}) } else { let vi = rng.idx(3); write_step(rng, Some(ki), vi, vlen(&vals, vi), &wcfg) };
        set_flav(&mut st, flav(rng));
        steps.push(st);
    }
    if rng.chance(1, 3) {
        // looked at before the damage, by processes that stay alive
        steps.extend(all_flav_audit(&["metadata", "list"]));
    }
    let ndmg = rng.range(1, 2);
    for _ in 0..ndmg {
        let ki = rng.idx(nk);
        let d = match rng.below(9) {
            0 => json!({"k":"env","act":"truncate_frac","bucket":ki,"num":rng.below(1000)}),
            1 => json!({"k":"env","act":"flip_frac","bucket":ki,"num":rng.below(1000),"bit":rng.below(8)}),
            2 => json!({"k":"env","act":"flip_frac","bucket":ki,"num":rng.below(1000),"bit":7}),
            3 => json!({"k":"env","act":"insert_line","bucket":ki,"boundary":rng.below(6),"hex":hex::encode(garbage_line(rng))}),
            4 => json!({"k":"env","act":"insert_line","bucket":ki,"boundary":rng.below(6),"hex":"fffec3"}),
            5 => json!({"k":"env","act":"insert_line","bucket":ki,"boundary":rng.below(6),"hex":"000000"}),
            6 => json!({"k":"env","act":"dup_frac","bucket":ki,"a":rng.below(1000),"b":rng.below(1000),"c":rng.below(1000)}),
            7 if rng.chance(1, 2) => json!({"k":"env","act":"boundary_byte","bucket":ki,"boundary":rng.below(5),"byte":*rng.pick(&[9u64, 9, 32, 0, 13, 0xc3])}),
            7 => json!({"k":"env","act":"insert_line","bucket":ki,"boundary":rng.below(6),"hex":"41".repeat(if rng.chance(1,6) { 1 << 20 } else { 9000 })}),
            _ => json!({"k":"env","act":"garble_frac","bucket":ki,"num":rng.below(1000),"n":rng.range(1, 12),"seed":rng.below(1000)}),
        };
        steps.push(d);
    }
    steps.extend(all_flav_audit(&["metadata", "read", "list"]));
    let napp = rng.below(3);
    for _ in 0..napp {
        let ki = rng.idx(nk);
        let earlier: Vec<Value> = steps.iter().filter(|s| s["op"] == "write").cloned().collect();
        let mut st = if rng.chance(1, 4) {
            json!({"k":"api","op":"remove","key":ki})
        } else if !earlier.is_empty() && rng.chance(1, 3) {
            // the very write whose record may just have been damaged, issued again exactly as it was
            rng.pick(&earlier).clone()
        } else {
            let vi = rng.idx(3);
            write_step(rng, Some(ki), vi, vlen(&vals, vi), &wcfg)
        };
        set_flav(&mut st, flav(rng));
        steps.push(st);
    }
    if napp > 0 {
        steps.extend(all_flav_audit(&["metadata", "read", "list"]));
    }
    scenario("C06", keys, vals, steps, rng)
}

/// a well-formed UTF-8 line whose multi-byte character covers a byte offset near the end of the checksum column
/// (offsets 60..=68: the 64 hex digits, the tab, the start of the JSON)
fn straddle_line(rng: &mut Rng) -> Vec<u8> {
    let n = rng.range(59, 67) as usize;
    let mut s: String = "0123456789abcdef".chars().cycle().take(n).collect();
    s.push(*rng.pick(&['\u{e9}', '\u{65e5}', '\u{1f980}']));
    if rng.chance(1, 2) {
        s.push('\t');
    }
    s.push_str("{\"key\":\"k\",\"integrity\":\"sha256-47DEQpj8HBSa+/TImW+5JCeuQeRkm5NMpJWZG3hSuFU=\",\"time\":1,\"size\":0}");
    s.into_bytes()
}

fn garbage_line(rng: &mut Rng) -> Vec<u8> {
    if rng.chance(1, 8) {
        return straddle_line(rng);
    }
    match rng.below(7) {
        5 | 6 => {
            // valid UTF-8 text with multi-byte characters at arbitrary byte offsets (no tab / one tab)
            let n = rng.below(70) as usize;
            let mut s = "x".repeat(n);
            if rng.chance(1, 2) {
                s.push('\t');
            }
            for _ in 0..rng.range(3, 40) {
                s.push(*rng.pick(&['\u{e9}', '\u{65e5}', '\u{1f980}', 'a']));
            }
            s.into_bytes()
        }
        0 => b"garbage without a tab".to_vec(),
        1 => b"0000000000000000000000000000000000000000000000000000000000000000\t{\"key\":\"x\"}".to_vec(),
        2 => b"\t\t\t".to_vec(),
        3 => {
            let mut v = rng.bytes_below(60);
            for b in v.iter_mut() {
                if *b == b'\n' {
                    *b = b'.';
                }
            }
            v
        }
        _ => b"{\"key\":\"no-hash\",\"integrity\":\"sha256-47DEQpj8HBSa+/TImW+5JCeuQeRkm5NMpJWZG3hSuFU=\",\"time\":1,\"size\":0,\"metadata\":null,\"raw_metadata\":null}".to_vec(),
    }
}

// ------------------------------------------------------------------------------------------ C08
pub fn gen_c08(rng: &mut Rng) -> Value {
    let big = if rng.chance(1, 10) { 500_000 } else { 0 };
    let vals = mk_vals(rng, 2, big);
    let keys = pick_keys_p(rng, 2, 1, 3);
    let mut steps = Vec::new();
    // prior state of key 0 (sometimes holding exactly the bytes of the coming attempt)
    let prior_val = if rng.chance(1, 3) { 0 } else { 1 };
    match rng.below(3) {
        0 => {}
        1 => {
            let mut w = json!({"k":"api","op":"write","entry":"write","key":0,"val":prior_val});
            set_flav(&mut w, flav(rng));
            steps.push(w);
        }
        _ => {
            let mut w = json!({"k":"api","op":"write","entry":"write","key":0,"val":1});
            set_flav(&mut w, flav(rng));
            steps.push(w);
            let mut r = json!({"k":"api","op":"remove","key":0});
            set_flav(&mut r, flav(rng));
            steps.push(r);
        }
    }
    // bystander (sometimes sharing the content of the coming attempt)
    let mut b = json!({"k":"api","op":"write","entry":"write","key":1,"val": if rng.chance(1, 3) { 0 } else { 1 }});
    set_flav(&mut b, flav(rng));
    steps.push(b);
    let attempts = rng.range(1, 2);
    for _ in 0..attempts {
        let len = vlen(&vals, 0);
        let algo = *rng.pick(&ALGOS);
        let mut o = json!({"algo": algo});
        let size_choice = rng.below(7);
        match size_choice {
            0 => {}
            1 | 2 => o["size"] = json!(len),
            3 => o["size"] = json!(len.saturating_sub(1)),
            4 => o["size"] = json!(len + 1),
            5 => o["size"] = json!(0),
            _ => o["size"] = json!(len + (1 << 20)),
        }
        match rng.below(7) {
            0 | 1 => {}
            2 => o["sri"] = json!({"val":0,"algo":algo}),
            3 => o["sri"] = json!({"val":0,"algo":algo,"wrong":true}),
            4 => {
                // a digest of another algorithm (sometimes the same): of this data, or of other data
                let other = *rng.pick(&ALGOS);
                o["sri"] = json!({"val": if rng.chance(1, 2) { 0 } else { 1 },"algo":other});
            }
            5 if rng.chance(1, 3) => {
                // multi-hash, every hash a true digest of the data, one of them of a stronger algorithm than the
                // writer's: the declaration matches, the commit must succeed (what the entry then resolves to is
                // observation O2 of DESIGN section 7, outside the properties: the model expects reads to fail)
                let other = *rng.pick(&["sha512", "sha384", "sha256"]);
                o["sri"] = json!({"multi":[{"val":0,"algo":algo},{"val":0,"algo":other}]});
            }
            5 => {
                // multi-hash containing the correct one plus a weaker-or-equal foreign hash
                o["sri"] = json!({"multi":[{"val":0,"algo":algo},{"val":1,"algo":"xxh3"}]});
            }
            _ => o["sri"] = json!({"multi":[{"val":0,"algo":algo,"wrong":true},{"val":1,"algo":"xxh3"}]}),
        }
        if rng.chance(1, 10) {
            // the true address of the bystander's value
            o["algo"] = json!("sha256");
            o["sri"] = json!({"val":1,"algo":"sha256"});
        }
        if rng.chance(1, 3) {
            o["meta"] = json!({"attempt": true});
        }
        if rng.chance(1, 6) {
            // the options were first set to something else (for the ones that are set at all: the last call counts)
            let mut first = json!({});
            if o.get("size").is_some() {
                first["size"] = json!(len + 7);
            }
            if o.get("sri").is_some() {
                first["sri"] = json!({"val":1,"algo":"sha256"});
            }
            if o.get("meta").is_some() {
                first["meta"] = json!("first");
            }
            o["first"] = first;
        }
        let mut st = json!({"k":"api","op":"write","entry":"opts","val":0,"opts":o});
        if rng.chance(3, 4) {
            st["key"] = json!(0);
        }
        if let Some(c) = chunking(rng, len) {
            st["chunks"] = json!(c);
        }
        if rng.chance(1, 6) {
            st["vectored"] = json!(true);
        }
        set_flav(&mut st, flav(rng));
        steps.push(st);
        steps.extend(all_flav_audit(&["metadata", "read", "list"]));
    }
    scenario("C08", keys, vals, steps, rng)
}

// ------------------------------------------------------------------------------------------ C11
pub fn gen_c11(rng: &mut Rng) -> Value {
    let nk = rng.range(1, 4) as usize;
    let keys = pick_keys(rng, nk, true);
    let mut vals = mk_vals(rng, 2, 0);
    if rng.chance(1, 12) {
        // a value handed over in one buffer of several MiB (the default size must be the bytes written)
        vals[0]["len"] = json!(*rng.pick(&[1_048_577u64, 2_500_000, 4_200_000]));
    }
    let mut steps = Vec::new();
    let n = rng.range(1, 5);
    for _ in 0..n {
        if rng.chance(1, 3) {
            steps.push(json!({"k":"clock","ms": clock_text(rng)}));
        }
        let ki = rng.idx(nk);
        let vi = rng.idx(2);
        let len = vlen(&vals, vi);
        let entry = *rng.pick(&["write", "write_algo", "create", "create_algo", "opts", "opts", "opts"]);
        let mut st = json!({"k":"api","op":"write","entry":entry,"key":ki,"val":vi});
        if entry.ends_with("_algo") {
            st["algo"] = json!(*rng.pick(&ALGOS));
        }
        if entry == "opts" {
            let mut o = json!({});
            if rng.chance(1, 2) {
                o["algo"] = json!(*rng.pick(&ALGOS));
            }
            if rng.chance(1, 2) {
                o["time"] = json!(time_text(rng));
            }
            if rng.chance(2, 3) {
                o["meta"] = meta_value(rng);
            }
            if rng.chance(1, 2) {
                o["raw"] = json!(hex::encode(rng.bytes_below(300)));
            }
            if rng.chance(1, 30) {
                let n = 20_000 + rng.below(15_000) as usize;
                o["raw"] = json!(hex::encode(rng.bytes(n)));
            }
            if rng.chance(1, 3) {
                o["size"] = json!(len);
            }
            if rng.chance(1, 3) {
                let a = o.get("algo").and_then(|a| a.as_str()).unwrap_or("sha256").to_string();
                o["sri"] = if rng.chance(1, 2) || a == "xxh3" { json!({"val":vi,"algo":a}) } else { json!({"multi":[{"val":vi,"algo":a},{"val":vi,"algo":"xxh3"}]}) };
            }
            st["opts"] = o;
        }
        if !matches!(entry, "write" | "write_algo") {
            if let Some(c) = chunking(rng, len) {
                st["chunks"] = json!(c);
            }
            // the wall clock moves between open and commit: the default time must be the commit instant
            if rng.chance(1, 2) {
                st["clock_at_commit"] = json!(clock_text(rng));
            }
        }
        if !matches!(entry, "write" | "write_algo") && rng.chance(1, 6) {
            st["vectored"] = json!(true);
        }
        set_flav(&mut st, flav(rng));
        steps.push(st);
        let f = flav(rng);
        steps.push(json!({"k":"audit","bin":f.0,"mode":f.1,"what":["metadata","list"]}));
    }
    for f in PURE {
        steps.push(json!({"k":"audit","bin":f.0,"mode":f.1,"what":["metadata","list"]}));
    }
    scenario("C11", keys, vals, steps, rng)
}

fn clock_text(rng: &mut Rng) -> String {
    match rng.below(6) {
        0 => "1".into(),
        1 => "999".into(),
        2 => "1000".into(),
        3 => "4102444800123".into(),       // year 2100
        4 => "253402300799999".into(),     // year 9999
        _ => (1_000_000_000_000u64 + rng.below(1 << 40)).to_string(),
    }
}

// ------------------------------------------------------------------------------------------ C14
pub fn gen_c14(rng: &mut Rng) -> Value {
    let nk = rng.range(1, 3) as usize;
    let keys = pick_keys_p(rng, nk, 1, 3);
    let big = if rng.chance(1, 10) { 400_000 } else { 0 };
    let vals = mk_vals(rng, 3, big);
    let mut steps = Vec::new();
    let n = rng.range(2, 8);
    let wcfg = WriteCfg { by_hash_pct: 20, rich_opts: false, declare_size_pct: 0, algos: false, ends: false };
    for _ in 0..n {
        let ki = rng.idx(nk);
        let vi = rng.idx(3);
        let len = vlen(&vals, vi);
        let f = flav(rng);
        if rng.chance(1, 3) {
            let mut st = write_step(rng, Some(ki), vi, len, &wcfg);
            set_flav(&mut st, f);
            steps.push(st);
            continue;
        }
        // an abandoned or rejected writer
        let mut o = json!({});
        let mut st = json!({"k":"api","op":"write","entry":"opts","val":vi});
        if rng.chance(3, 4) {
            st["key"] = json!(ki);
        }
        let chunks = chunking(rng, len).unwrap_or(vec![len]);
        let kind = rng.below(6);
        match kind {
            0 => {
                st["end"] = json!("drop");
                st["stop_after"] = json!(0);
            }
            1 => {
                st["end"] = json!("drop");
                st["stop_after"] = json!(rng.range(1, chunks.len() as u64));
            }
            2 => {
                st["end"] = json!(if f.1 == "async" { "pending_drop" } else { "drop" });
            }
            3 => {
                st["end"] = json!(if f.1 == "async" { "close_drop" } else { "drop" });
                st["flush_after"] = json!([0]);
            }
            4 => {
                // rejected by the size check, on either side of the mmap threshold
                o["size"] = json!(match rng.below(4) {
                    0 => len + (1 << 20) + 1,
                    1 => len + 1 + rng.below(9),
                    // fewer bytes declared than written: the data outgrows the preallocated file in the middle of a chunk
                    2 if len > 1 => rng.range(1, len - 1),
                    _ => if rng.chance(1, 2) { 0 } else { len / 2 },
                });
                if rng.chance(1, 3) {
                    // a correct integrity declared next to the wrong size
                    o["sri"] = json!({"val":vi,"algo":"sha256"});
                }
            }
            _ => {
                // a digest that names nothing, or the true address of another value (which may be stored and in use)
                o["sri"] = match rng.below(5) {
                    0 | 1 => json!({"val":vi,"algo":"sha256","wrong":true}),
                    2 | 3 => json!({"val":(vi + 1 + rng.idx(2)) % 3,"algo":"sha256"}),
                    _ => json!({"val":(vi + 1 + rng.idx(2)) % 3,"algo":*rng.pick(&["sha512","sha1","xxh3"])}),
                };
            }
        }
        st["chunks"] = json!(chunks);
        st["opts"] = o;
        set_flav(&mut st, f);
        steps.push(st);
        let fa = flav(rng);
        steps.push(json!({"k":"audit","bin":fa.0,"mode":fa.1,"what":["metadata","read","list"]}));
    }
    scenario("C14", keys, vals, steps, rng)
}

// ------------------------------------------------------------------------------------------ C19
pub fn gen_c19(rng: &mut Rng) -> Value {
    let keys = pick_keys_p(rng, 2, 1, 4);
    let sizes = [0u64, 1, 7, 8, 9, 100, 16383, 16384, 16385, 40_000];
    let vals = vec![json!({"seed": rng.next_u64() >> 1, "len": *rng.pick(&sizes)}), json!({"seed": rng.next_u64() >> 1, "len": *rng.pick(&sizes) + 1}), json!({"seed": rng.next_u64() >> 1, "len": 33})];
    let len = vlen(&vals, 0);
    let mut steps = Vec::new();
    steps.push(json!({"k":"env","act":"write_file","path":"$T/t0","val":0}));
    steps.push(json!({"k":"env","act":"write_file","path":"$T/sub/t1","val":1}));
    // a second file with the same bytes as t0: both link to one content address
    steps.push(json!({"k":"env","act":"write_file","path":"$T/twin","val":0}));
    if rng.chance(1, 5) {
        // the file to be linked is read-only (it stays that way, whatever happens to the entry)
        steps.push(json!({"k":"env","act":"chmod","path":"$T/t0","mode":*rng.pick(&[0o444u64, 0o400, 0o555])}));
    }
    let twin_first = rng.chance(1, 4);
    if twin_first {
        let mut l = json!({"k":"api","op":"link_to","entry":"fn","key":1,"target":"$T/twin"});
        set_flav(&mut l, flav(rng));
        steps.push(l);
    }
    // the address may already exist as regular content
    if rng.chance(1, 5) {
        let mut w = json!({"k":"api","op":"write","entry":"write","val":0});
        set_flav(&mut w, flav(rng));
        steps.push(w);
    }
    if rng.chance(1, 8) {
        // the target's spelling goes through a directory symlink and then `..`: the kernel continues from the parent
        // of what the symlink points to, not from the directory the symlink sits in
        steps.push(json!({"k":"env","act":"mkdir","path":"$T/store/v1/pkg"}));
        steps.push(json!({"k":"env","act":"dir_symlink","path":"$T/vend","target": if rng.chance(1, 2) { "$T/store/v1/pkg" } else { "store/v1/pkg" }}));
        steps.push(json!({"k":"env","act":"write_file","path":"$T/store/v1/t0","val":1}));
        if rng.chance(1, 2) {
            // nothing at the textually folded path
            steps.push(json!({"k":"env","act":"delete","path":"$T/t0"}));
        }
        let rel = rng.chance(1, 2);
        if rel {
            steps.push(json!({"k":"chdir","path":"$T"}));
        }
        let mut st = json!({"k":"api","op":"link_to","entry":*rng.pick(&["fn", "open", "opts"]),"key":0,"target": if rel { "vend/../t0" } else { "$T/vend/../t0" }});
        set_flav(&mut st, flav(rng));
        steps.push(st);
        steps.extend(all_flav_audit(&["metadata", "read", "read_hash"]));
        steps.push(json!({"k":"chdir","path":"$R"}));
        let f = flav(rng);
        steps.push(json!({"k":"audit","bin":f.0,"mode":f.1,"what":["read","reader","read_hash"]}));
        return scenario("C19", keys, vals, steps, rng);
    }
    let relative = rng.chance(1, 3);
    let target = if relative {
        let cwd = *rng.pick(&["$T", "$O", "$T/sub"]);
        steps.push(json!({"k":"chdir","path":cwd}));
        match cwd {
            "$T" => "t0".to_string(),
            "$O" => "../targets/t0".to_string(),
            _ => "../t0".to_string(),
        }
    } else {
        "$T/t0".to_string()
    };
    let entry = *rng.pick(&["fn", "open", "opts", "opts"]);
    let mut st = json!({"k":"api","op":"link_to","entry":entry,"target":target});
    if rng.chance(3, 4) {
        st["key"] = json!(0);
    }
    if entry == "opts" {
        let mut o = json!({});
        let algo = *rng.pick(&ALGOS);
        if rng.chance(1, 2) {
            o["algo"] = json!(algo);
        }
        match rng.below(5) {
            0 => o["size"] = json!(len),
            1 => o["size"] = json!(len + 1),
            2 => o["size"] = json!(len.saturating_sub(1)),
            _ => {}
        }
        match rng.below(7) {
            0 => o["sri"] = json!({"val":0,"algo":o.get("algo").and_then(|a| a.as_str()).unwrap_or("sha256")}),
            1 => o["sri"] = json!({"val":0,"algo":o.get("algo").and_then(|a| a.as_str()).unwrap_or("sha256"),"wrong":true}),
            // a digest under some algorithm (often not the linker's) of the target's bytes / of other bytes
            5 => o["sri"] = json!({"val":0,"algo":*rng.pick(&ALGOS)}),
            6 => o["sri"] = json!({"val":1,"algo":*rng.pick(&ALGOS)}),
            _ => {}
        }
        if rng.chance(1, 3) {
            o["meta"] = meta_value(rng);
        }
        if rng.chance(1, 3) {
            o["time"] = json!(time_text(rng));
        }
        st["opts"] = o;
    }
    if entry != "fn" && rng.chance(1, 2) {
        // partial reads through the linker before commit
        let k = rng.range(1, 3);
        let reads: Vec<u64> = (0..k).map(|_| *rng.pick(&[0u64, 1, 5, 8, 100, 16384, 20000])).collect();
        st["reads"] = json!(reads);
        if rng.chance(1, 3) {
            st["to_end"] = json!(*rng.pick(&[0u64, 1, 40]));
        }
    }
    if relative && entry != "fn" && rng.chance(1, 2) {
        // the caller changes directory between opening the linker and committing it
        st["chdir_before_commit"] = json!(*rng.pick(&["$R", "$O", "$C"]));
    }
    let f0 = flav(rng);
    set_flav(&mut st, f0);
    steps.push(st);
    if relative && rng.chance(1, 2) {
        steps.push(json!({"k":"chdir","path":"$R"}));
    }
    if relative && rng.chance(1, 3) {
        // the same process links another relative target after its working directory has changed
        let (cwd2, t2) = *rng.pick(&[("$T/sub", "t1"), ("$T", "sub/t1"), ("$O", "../targets/sub/t1"), ("$T/sub", "./t1")]);
        steps.push(json!({"k":"chdir","path":cwd2}));
        let mut l2 = json!({"k":"api","op":"link_to","entry":*rng.pick(&["fn","open","opts"]),"key":1,"target":t2});
        set_flav(&mut l2, if rng.chance(3, 4) { f0 } else { flav(rng) });
        steps.push(l2);
    }
    steps.extend(all_flav_audit(&["metadata", "read", "read_hash"]));
    // "put everything back in its place": an extraction whose destination is the linked file itself
    if rng.chance(1, 4) {
        let op = *rng.pick(&["copy", "copy", "copy_unchecked", "copy_unchecked", "hard_link", "reflink"]);
        let mut x = json!({"k":"api","op":op,"to":"$T/t0"});
        if rng.chance(1, 2) {
            x["key"] = json!(0);
        } else {
            x["addr"] = json!({"val":0,"algo":"sha256"});
        }
        set_flav(&mut x, flav(rng));
        steps.push(x);
        let f = flav(rng);
        steps.push(json!({"k":"audit","bin":f.0,"mode":f.1,"what":["read","read_hash"]}));
    }
    // removals of a linked entry remove the link, never the target
    if rng.chance(1, 5) {
        let mut rm = match rng.below(4) {
            0 => json!({"k":"api","op":"remove_hash","addr":{"val":0,"algo":"sha256"}}),
            1 => json!({"k":"api","op":"remove_opts","fully":true,"key":0}),
            2 => json!({"k":"api","op":"clear"}),
            _ => json!({"k":"api","op":"remove","key":0}),
        };
        set_flav(&mut rm, flav(rng));
        steps.push(rm);
        let f = flav(rng);
        steps.push(json!({"k":"audit","bin":f.0,"mode":f.1,"what":["metadata","read","read_hash"]}));
    }
    // the target changes after linking
    let m = rng.below(8);
    match m {
        0 | 1 => {}
        2 => steps.push(json!({"k":"env","act":"flip","path":"$T/t0","byte":rng.below(len.max(1)),"bit":rng.below(8),"linked":{"val":0}})),
        3 => steps.push(json!({"k":"env","act":"extend","path":"$T/t0","n":5,"seed":1,"linked":{"val":0}})),
        4 => steps.push(json!({"k":"env","act":"truncate","path":"$T/t0","len":len / 2,"linked":{"val":0}})),
        5 => steps.push(json!({"k":"env","act":"delete","path":"$T/t0","linked":{"val":0}})),
        6 => steps.push(json!({"k":"env","act":"write_file","path":"$T/t0","val":2,"linked":{"val":0}})),
        _ => {
            steps.push(json!({"k":"env","act":"write_file","path":"$T/t0","val":2,"linked":{"val":0}}));
            steps.push(json!({"k":"env","act":"write_file","path":"$T/t0","val":0,"linked":{"val":0}}));
        }
    }
    if m >= 2 {
        let f = flav(rng);
        steps.push(json!({"k":"audit","bin":f.0,"mode":f.1,"what":["read","reader","read_hash"]}));
    }
    if m < 2 && len > 0 && rng.chance(1, 4) {
        // the file changes without changing its length or its timestamps, and is linked again under the same key
        steps.push(json!({"k":"env","act":"flip","path":"$T/t0","byte":rng.below(len),"bit":rng.below(8),"keep_mtime":true,"linked":{"val":0}}));
        let mut l = json!({"k":"api","op":"link_to","entry":*rng.pick(&["fn","open"]),"key":0,"target":"$T/t0"});
        set_flav(&mut l, flav(rng));
        steps.push(l);
        steps.extend(all_flav_audit(&["metadata", "read", "read_hash"]));
    }
    steps.push(json!({"k":"chdir","path":"$R"}));
    // the first target is gone (its link dangles); the same bytes are linked again from the twin file
    if !twin_first && rng.chance(1, 5) {
        steps.push(json!({"k":"env","act":"delete","path":"$T/t0"}));
        let mut l = json!({"k":"api","op":"link_to","entry":*rng.pick(&["fn","open"]),"key":1,"target":"$T/twin"});
        set_flav(&mut l, flav(rng));
        steps.push(l);
        steps.extend(all_flav_audit(&["metadata", "read", "read_hash"]));
    }
    scenario("C19", keys, vals, steps, rng)
}

// ------------------------------------------------------------------------------------------ C20
pub fn gen_c20(rng: &mut Rng) -> Value {
    let keys = pick_keys(rng, 3, true);
    let big = if rng.chance(1, 8) { 500_000 } else { 0 };
    let mut vals = mk_vals(rng, 3, big);
    if rng.chance(1, 2) {
        vals[0]["len"] = json!(0);
    }
    let mut steps = Vec::new();
    // a little ordinary history first (sometimes)
    if rng.chance(2, 3) {
        let mut w = json!({"k":"api","op":"write","entry":"write","key":0,"val":1});
        set_flav(&mut w, flav(rng));
        steps.push(w);
    }
    // odd on-disk states
    let nodd = rng.below(3);
    for _ in 0..nodd {
        let s = match rng.below(16) {
            15 => {
                // a record with a valid checksum, written by some other program, whose integrity text is not an
                // integrity value (unknown algorithm / no digest part)
                let ki = rng.idx(3);
                json!({"k":"env","act":"append_record","bucket":ki,"rec":{"key":keys[ki].clone(),"integrity":*rng.pick(&["md5-1B2M2Y8AsgTpgAmY7PhCfg==", "garbage", "sha256", "crc32-AAAA sha256-47DEQpj8HBSa+/TImW+5JCeuQeRkm5NMpJWZG3hSuFU="]),"time":1,"size":0,"metadata":null,"raw_metadata":null},"hostile":true})
            }
            13 => {
                // leftovers next to a bucket file: lock-like, temp-like, backup-like names
                let key = keys[rng.idx(3)].clone();
                json!({"k":"env","act":"write_file","bucket_sibling":key,"suffix":*rng.pick(&[".lock", ".tmp", "~", ".new"]),"hex":"","hostile":true})
            }
            14 => json!({"k":"env","act":"toplevel_symlink","path":format!("$C/{}", *rng.pick(&["content-v2", "index-v5", "tmp"])),"target":format!("$R/elsewhere{}", rng.below(2)),"hostile":true}),
            11 => json!({"k":"env","act":"insert_line","bucket":rng.below(3),"boundary":rng.below(3),"hex":hex::encode(garbage_line(rng)),"hostile":true}),
            12 => json!({"k":"env","act":"write_file","bucket":rng.below(3),"hex":hex::encode([b"\n".to_vec(), straddle_line(rng)].concat()),"hostile":true}),
            0 => json!({"k":"env","act":"mkdir","bucket":rng.below(3),"hostile":true}),
            1 => json!({"k":"env","act":"mkdir","content":{"val":rng.below(3),"algo":"sha256"},"hostile":true}),
            2 => json!({"k":"env","act":"write_file","path":"$C/tmp","hex":"00","hostile":true}),
            3 => json!({"k":"env","act":"write_file","path":"$C/index-v5","hex":"00","hostile":true}),
            4 => json!({"k":"env","act":"write_file","path":"$C/content-v2","hex":"","hostile":true}),
            5 => json!({"k":"env","act":"write_file","path":"$C/index-v5/zz/stray","hex":"0a0a0a","hostile":true}),
            6 => json!({"k":"env","act":"write_file","path":"$C/index-v5/ab/cd/ef/deeper/file","hex":"6162","hostile":true}),
            7 => json!({"k":"env","act":"symlink_loop","bucket":rng.below(3),"hostile":true}),
            8 => json!({"k":"env","act":"write_file","bucket":rng.below(3),"hex":"41".repeat(3 << 20),"hostile":true}),
            9 => json!({"k":"env","act":"write_file","path":"$C/content-v2/sha256/zz","hex":"00","hostile":true}),
            _ => json!({"k":"env","act":"rmdir_cache","path":"$C","hostile":true}),
        };
        steps.push(s);
    }
    let n = rng.range(2, 8);
    for _ in 0..n {
        let ki = rng.idx(3);
        let vi = rng.idx(3);
        let len = vlen(&vals, vi);
        let mut st = match rng.below(16) {
            0..=4 => {
                // misuse of declared size: several chunks, more or fewer bytes than declared
                let mut o = json!({});
                match rng.below(5) {
                    0 => o["size"] = json!(len),
                    1 => o["size"] = json!(len / 2),
                    2 => o["size"] = json!(len * 2 + 1),
                    3 => o["size"] = json!(0),
                    _ => {}
                }
                if rng.chance(1, 3) {
                    o["algo"] = json!(*rng.pick(&ALGOS));
                }
                let mut s = json!({"k":"api","op":"write","entry":"opts","val":vi,"opts":o,"hostile":true});
                if rng.chance(2, 3) {
                    s["key"] = json!(ki);
                }
                if let Some(c) = chunking(rng, len) {
                    s["chunks"] = json!(c);
                }
                if rng.chance(1, 4) {
                    s["flush_after"] = json!([0]);
                }
                if rng.chance(1, 6) {
                    s["end"] = json!(*rng.pick(&["drop", "close_drop", "pending_drop", "close_commit"]));
                }
                if rng.chance(1, 5) {
                    // the temp area (or the whole cache) disappears while the writer is open, e.g. a concurrent clear
                    s["mid_after"] = json!(0);
                    s["mid"] = json!({"act":"rmdir_all","path":*rng.pick(&["$C/tmp", "$C", "$C/content-v2"])});
                }
                s
            }
            5 => json!({"k":"api","op":"write","entry":*rng.pick(&["write","write_algo"]),"algo":*rng.pick(&ALGOS),"val":vi,"key":ki}),
            6 => json!({"k":"api","op":"write","entry":"write","val":vi}),
            7 => json!({"k":"api","op":"read","key":ki}),
            8 if rng.chance(1, 4) => json!({"k":"api","op":"reader","key":ki,"bufs":[4096],"to_end":*rng.pick(&[0u64, 1, 40]),"exact_first":*rng.pick(&[0u64, 1, 33, 5000]),"eof_reads":rng.below(3)}),
            8 => json!({"k":"api","op":"reader","key":ki,"bufs":[0, if vals.iter().any(|v| v["len"].as_u64().unwrap_or(0) > 4096) { 4096 } else { *rng.pick(&[1u64, 0, 4096]) }],"eof_reads":rng.below(4)}),
            9 => json!({"k":"api","op":*rng.pick(&["metadata","find"]),"key":ki}),
            10 => json!({"k":"api","op":*rng.pick(&["list","ls"])}),
            // destinations that are no file names: empty, the root, a directory, a path through a missing directory
            11 if rng.chance(1, 4) => json!({"k":"api","op":*rng.pick(&["copy","copy_unchecked","hard_link","reflink","hard_link_unchecked","reflink_unchecked"]),"key":ki,"to":*rng.pick(&["", "/", ".", "..", "$O/", "$O", "$C", "$O/nodir/deeper/x", "$O/h0/x"]),"hostile":true}),
            11 => json!({"k":"api","op":*rng.pick(&["copy","copy_unchecked","hard_link","reflink","hard_link_unchecked","reflink_unchecked"]),"key":ki,"to":format!("$O/h{}", rng.below(3))}),
            12 => json!({"k":"api","op":*rng.pick(&["remove","remove_opts"]),"key":ki,"fully":rng.chance(1,2)}),
            13 => json!({"k":"api","op":*rng.pick(&["remove_hash","exists","read"]),"addr":{"val":vi,"algo":*rng.pick(&ALGOS)}}),
            14 => json!({"k":"api","op":"clear"}),
            _ => {
                // a raw index record with an absurd recorded size, usually pointing at content that exists
                let (v2, a2) = if rng.chance(2, 3) { (1u64, "sha256") } else { (vi as u64, *rng.pick(&["sha1", "sha256"])) };
                json!({"k":"api","op":"index_insert","key":ki,"opts":{"sri":{"val":v2,"algo":a2},"size":*rng.pick(&[len, 0, u32::MAX as u64, i64::MAX as u64, u64::MAX])},"hostile":true})
            }
        };
        set_flav(&mut st, flav(rng));
        if st["op"] == "list" || st["op"] == "ls" {
            st["mode"] = json!("sync");
        }
        let follow = st["op"] == "index_insert" && rng.chance(2, 3);
        steps.push(st);
        if follow {
            // the odd record is looked at right away through some reading entry point
            let mut rd = match rng.below(5) {
                0 => json!({"k":"api","op":"read","key":ki}),
                1 => json!({"k":"api","op":"reader","key":ki,"bufs":[4096]}),
                2 => json!({"k":"api","op":"metadata","key":ki}),
                3 => json!({"k":"api","op":"copy","key":ki,"to":"$O/odd"}),
                _ => json!({"k":"api","op":"list"}),
            };
            set_flav(&mut rd, flav(rng));
            if rd["op"] == "list" {
                rd["mode"] = json!("sync");
            }
            steps.push(rd);
        }
    }
    let mut sc = scenario("C20", keys, vals, steps, rng);
    sc["lenient_model"] = json!(true);
    sc
}

// ------------------------------------------------------------------------------------------ C12
pub fn gen_c12(rng: &mut Rng) -> Value {
    let nk = rng.range(1, 3) as usize;
    let keys = pick_keys_p(rng, nk + 1, 1, 2);
    let big = if rng.chance(1, 12) { 400_000 } else { 0 };
    let vals = mk_vals(rng, 3, big);
    let mut steps = Vec::new();
    let n = rng.range(3, 12);
    for _i in 0..n {
        let ki = rng.idx(nk + 1);
        let vi = rng.idx(3);
        let len = vlen(&vals, vi);
        // few destination names: extractions meet files left by earlier extractions or put there beforehand
        let dest = format!("$O/c{}", rng.below(3));
        if rng.chance(1, 8) {
            steps.push(json!({"k":"env","act":"write_file","path":dest.clone(),"hex":"ab".repeat(rng.below(40) as usize)}));
        }
        let st = match rng.below(24) {
            0..=5 => {
                let wcfg = WriteCfg { by_hash_pct: 20, rich_opts: true, declare_size_pct: 40, algos: true, ends: false };
                let k = if rng.chance(4, 5) { Some(ki) } else { None };
                write_step(rng, k, vi, len, &wcfg)
            }
            6 => {
                // wrong declarations
                let mut o = json!({});
                match rng.below(6) {
                    0 => o["size"] = json!(len + 1 + (1 << 20)),
                    1 => o["sri"] = json!({"val":vi,"algo":"sha256","wrong":true}),
                    // a true digest of another algorithm than the writer's default, no algorithm chosen
                    2 => o["sri"] = json!({"val": if rng.chance(2, 3) { vi } else { (vi + 1) % 3 },"algo":*rng.pick(&["sha512","sha1","sha384","xxh3"])}),
                    3 => o["sri"] = json!({"multi":[{"val":vi,"algo":"sha512"},{"val":vi,"algo":"sha1"}]}),
                    4 => o["size"] = json!(if len > 0 && rng.chance(1, 2) { len - 1 } else { len + 1 }),
                    _ => {
                        o["size"] = json!(len + 1 + (1 << 20));
                        o["sri"] = json!({"val":vi,"algo":"sha256","wrong":true});
                    }
                }
                let mut w = json!({"k":"api","op":"write","entry":"opts","val":vi,"opts":o});
                if rng.chance(3, 4) {
                    w["key"] = json!(ki);
                }
                w
            }
            7 | 8 => json!({"k":"api","op":"read","key":ki}),
            9 => json!({"k":"api","op":"read","addr":{"val":vi,"algo":"sha256"}}),
            10 if rng.chance(1, 3) => json!({"k":"api","op":"reader","key":ki,"bufs":[*rng.pick(&[1u64, 7, 100]), *rng.pick(&[8192u64, 16384, 65536])],"eof_reads":rng.below(2)}),
            10 if rng.chance(1, 3) => {
                let mut r = json!({"k":"api","op":"reader","key":ki,"bufs":[4096],"to_end":*rng.pick(&[0u64, 1, 40, 3000])});
                if rng.chance(1, 2) {
                    r["exact_first"] = json!(*rng.pick(&[1u64, 33, 5000, 3_000_000]));
                }
                r
            }
            10 => json!({"k":"api","op":"reader","key":ki,"bufs":[pick_buf(rng, vals.iter().map(|v| v["len"].as_u64().unwrap_or(0)).max().unwrap_or(0))]}),
            11 => json!({"k":"api","op":"metadata","key":ki}),
            12 => json!({"k":"api","op":"exists","addr":{"val":vi,"algo":"sha256"}}),
            13 => json!({"k":"api","op":"copy","key":ki,"to":dest.clone()}),
            14 => json!({"k":"api","op":"copy_unchecked","key":ki,"to":dest.clone()}),
            15 => json!({"k":"api","op":"copy","addr":{"val":vi,"algo":"sha256"},"to":dest.clone()}),
            16 => json!({"k":"api","op":"hard_link","key":ki,"to":dest.clone()}),
            17 => json!({"k":"api","op":"reflink","key":ki,"to":dest.clone()}),
            18 => json!({"k":"api","op":"remove","key":ki}),
            19 => json!({"k":"api","op":"remove_hash","addr":{"val":vi,"algo":"sha256"}}),
            20 => json!({"k":"api","op":"remove_opts","fully":true,"key":ki}),
            21 if rng.chance(1, 3) => json!({"k":"api","op":"clear"}),
            21 => json!({"k":"api","op":"list"}),
            22 => json!({"k":"env","act":"flip_frac","content":{"val":vi,"algo":"sha256"},"num":rng.below(1000),"bit":rng.below(8)}),
            _ if rng.chance(1, 6) => match rng.below(3) {
                // paths of the index that do not resolve (a loop, a file where a directory should be)
                0 => json!({"k":"env","act":"symlink_loop","bucket":ki}),
                1 => json!({"k":"env","act":"mkdir","bucket":ki}),
                _ => json!({"k":"env","act":"write_file","path":*rng.pick(&["$C/index-v5/zz", "$C/stray-file", "$C/content-v2/stray"]),"hex":"00"}),
            },
            _ if rng.chance(1, 5) => {
                // valid JSON with a TAB as whitespace between two members, correctly checksummed: the line has three
                // tab-separated fields and is not a record of the format
                let text = format!("{{\"key\":{},\t\"integrity\":\"sha256-47DEQpj8HBSa+/TImW+5JCeuQeRkm5NMpJWZG3hSuFU=\",\"time\":7,\"size\":0,\"metadata\":null,\"raw_metadata\":null}}", crate::fmt::json_str(&keys[ki]));
                json!({"k":"env","act":"append_hashed_text","bucket":ki,"text":text})
            }
            _ if rng.chance(1, 3) => json!({"k":"env","act":"append_record","bucket":ki,"rec":{"key":keys[ki].clone(),"integrity":*rng.pick(&["md5-1B2M2Y8AsgTpgAmY7PhCfg==", "garbage", "sha256"]),"time":1,"size":0,"metadata":null,"raw_metadata":null}}),
            _ => json!({"k":"env","act":"insert_line","bucket":ki,"boundary":rng.below(4),"hex": if rng.chance(1,2) { "fffec3".to_string() } else { hex::encode(garbage_line(rng)) }}),
        };
        steps.push(st);
    }
    if rng.chance(1, 10) {
        // an entry whose content is gone (removed by address) is removed for good, then looked at
        let ki = rng.idx(nk + 1);
        let vi = rng.idx(3);
        steps.push(json!({"k":"api","op":"write","entry":"write","key":ki,"val":vi}));
        steps.push(json!({"k":"api","op":"remove_hash","addr":{"val":vi,"algo":"sha256"}}));
        steps.push(json!({"k":"api","op":"remove_opts","fully":true,"key":ki}));
        steps.push(json!({"k":"api","op":"metadata","key":ki}));
    }
    if rng.chance(1, 8) {
        // something that is not the library's lies in the cache directory when it is cleared
        let at = rng.idx(steps.len() + 1);
        steps.insert(at, json!({"k":"env","act":"write_file","path":*rng.pick(&["$C/stray-file", "$C/content-v2/stray", "$C/index-v5/stray"]),"hex":"00"}));
        steps.push(json!({"k":"api","op":"clear"}));
        if rng.chance(1, 2) {
            steps.push(json!({"k":"api","op":"write","entry":"write","key":0,"val":0}));
        }
    }
    steps.push(json!({"k":"api","op":"list"}));
    // states the reference model does not describe (paths that do not resolve, files that are not the library's): only
    // the three flavours are compared with each other there
    let unmodelled = steps.iter().any(|s| s["k"] == "env" && (matches!(s["act"].as_str(), Some("symlink_loop") | Some("mkdir")) || s["path"].as_str().map(|p| p.starts_with("$C")).unwrap_or(false)));
    let mut sc = scenario("C12", keys, vals, steps, rng);
    if unmodelled {
        sc["lenient_model"] = json!(true);
    }
    sc
}
