// Lanes, orchestration, known findings, minimisation, replay and evidence files.
use std::collections::{BTreeMap, BTreeSet};
use std::path::{Path, PathBuf};
use std::process::Command;

use serde_json::{json, Value};

use crate::checks::{self, CheckSpec};
use crate::interp::{Ctx, Interp, Outcome, Viol};
use crate::prng::{hash_str, mix, Rng};
use crate::sysim;
use crate::Args;

pub fn run_seed(seed: u64, id: &str, r: u64) -> u64 {
    mix(mix(seed, hash_str(id)), r)
}

/// removes this process's scratch area; size-limited filesystems a dead lane may have left mounted in it go first
pub fn remove_scratch_base() {
    let base = scratch_base();
    if let Ok(m) = std::fs::read_to_string("/proc/self/mounts") {
        let b = base.display().to_string();
        let mut points: Vec<String> = m.lines().filter_map(|l| l.split_whitespace().nth(1).map(|s| s.to_string())).filter(|p| p.starts_with(&b)).collect();
        points.sort_by(|a, b| b.len().cmp(&a.len()));
        for p in points {
            crate::interp::unmount_tiny(Path::new(&p));
        }
    }
    let _ = std::fs::remove_dir_all(&base);
}

pub fn scratch_base() -> PathBuf {
    let shm = Path::new("/dev/shm");
    // VERIF_SCRATCH_BASE points the scratch area at another filesystem (e.g. an ext4 directory) to show that
    // results do not depend on tmpfs
    let base = match std::env::var("VERIF_SCRATCH_BASE") {
        Ok(p) if !p.is_empty() => PathBuf::from(p),
        _ => if shm.is_dir() { shm.to_path_buf() } else { std::env::temp_dir() },
    };
    base.join(format!("cacache-verif.{}", std::process::id()))
}

/// Run one scenario through the engine of its check.
pub fn run_scenario(ctx: &mut Ctx, spec: &CheckSpec, sc: &Value, run_id: &str) -> Outcome {
    // a check may mix engines: scenarios carrying "engine":"sysim" run under the system-call simulator
    if sc.get("engine").and_then(|e| e.as_str()) == Some("sysim") {
        return sysim::run_scenario(ctx, spec, sc, run_id);
    }
    match spec.engine {
        "tri" => crate::interp::run_tri(ctx, sc, run_id),
        "sysim" => sysim::run_scenario(ctx, spec, sc, run_id),
        _ => Interp::new(ctx, sc, run_id).run(),
    }
}

pub fn generate(spec: &CheckSpec, tier: &str, seed: u64, r: u64) -> Value {
    let mut rng = Rng::new(run_seed(seed, spec.id, r));
    if spec.engine == "sysim" {
        sysim::generate(spec.id, tier, r, &mut rng)
    } else {
        checks::generate(spec.id, tier, r, &mut rng)
    }
}

fn total_runs(spec: &CheckSpec, args: &Args) -> u64 {
    let ex = if spec.engine == "sysim" { sysim::exhaustive_count(spec.id, &args.tier) } else { checks::exhaustive_count(spec.id, &args.tier) };
    let seeded = args.runs.unwrap_or(if args.tier == "quick" { spec.runs.0 } else { spec.runs.1 });
    ex + seeded
}

fn log_hash(out: &Outcome) -> u64 {
    let mut h = 0xcbf29ce484222325u64;
    for l in &out.log {
        h = mix(h, hash_str(&l.to_string()));
    }
    h
}

// ------------------------------------------------------------------------------------------ lane
pub fn lane_main(args: &Args) -> i32 {
    let spec = match checks::spec(&args.id).or_else(|| sysim::spec(&args.id)) {
        Some(s) => s,
        None => return 2,
    };
    let total = total_runs(&spec, args);
    let scratch = scratch_base().join(format!("lane{}", args.lane));
    let mut ctx = Ctx::new(&args.workers, &scratch);
    ctx.keep_dirs = args.keep;
    let mut evaluations = 0u64;
    let mut hashes: BTreeSet<u64> = BTreeSet::new();
    let mut steps = 0u64;
    let mut faults: BTreeMap<String, u64> = BTreeMap::new();
    let mut probes: BTreeMap<String, u64> = BTreeMap::new();
    let mut viols: Vec<Value> = Vec::new();
    let mut per_sig: BTreeMap<String, u64> = BTreeMap::new();
    let mut foreign: BTreeMap<String, u64> = BTreeMap::new();
    let mut samples: Vec<Value> = Vec::new();
    let mut harness: Vec<String> = Vec::new();
    let mut interleavings: BTreeSet<u64> = BTreeSet::new();
    let start = std::time::Instant::now();
    let budget_s: u64 = std::env::var("VERIF_LANE_BUDGET_S").ok().and_then(|s| s.parse().ok()).unwrap_or(u64::MAX);
    // slot j of this lane -> run number: within blocks of lanes x lanes runs the columns are rotated, so that runs
    // with the same r mod 16 (the scheduler families of a check sit at fixed residues) are spread over all lanes
    let run_of = |j: u64| -> u64 {
        let l = args.lanes.max(1);
        let block = l * l;
        let b = j / block;
        if (b + 1) * block > total {
            return j; // last, partial block: as is
        }
        let i = (j % block) / l;
        let lane = j % l;
        b * block + i * l + ((lane + i) % l)
    };
    let mut j = args.lane;
    let mut cut_short = false;
    let mut hangs = 0usize;
    while j < total {
        let r = run_of(j);
        if let Some(only) = args.only_run {
            if r != only {
                j += args.lanes;
                continue;
            }
        }
        if start.elapsed().as_secs() > budget_s || hangs >= 3 {
            // hangs cost a watchdog period each: after three of them the lane has its finding and stops
            cut_short = true;
            break;
        }
        let sc = generate(&spec, &args.tier, args.seed, r);
        let mut out = run_scenario(&mut ctx, &spec, &sc, &format!("{}", r));
        if out.harness.is_some() {
            // an environment hiccup (fork failure, a worker lost) is retried once with fresh workers before it counts
            ctx.workers.clear();
            ctx.worker_clock.clear();
            std::thread::sleep(std::time::Duration::from_millis(200));
            out = run_scenario(&mut ctx, &spec, &sc, &format!("{}x", r));
        }
        evaluations += out.subruns.max(1);
        steps += out.steps;
        for (k, v) in &out.faults {
            *faults.entry(k.clone()).or_insert(0) += v;
        }
        for (k, v) in &out.probes {
            if k == "interleaving_hash_lo" {
                continue;
            }
            *probes.entry(k.clone()).or_insert(0) += v;
        }
        if let Some(h) = &out.harness {
            if harness.len() < 5 {
                harness.push(format!("run {}: {}", r, h));
            }
        }
        let nt = if is_sysim(&spec, &sc) { sysim::nontrivial(spec.id, &sc, &out) } else { checks::nontrivial(spec.id, &sc, &out) };
        if let Ok(p) = std::env::var("VERIF_DUMP_HASHES") {
            use std::io::Write;
            if let Ok(mut f) = std::fs::OpenOptions::new().create(true).append(true).open(&p) {
                let mut hs = out.sub_hashes.clone();
                hs.sort();
                let line = format!("{} {} {:016x} {:016x} viols={}\n", spec.id, r, log_hash(&out), hs.iter().fold(0u64, |a, b| mix(a, *b)), out.viols.len());
                let _ = f.write_all(line.as_bytes());
            }
        }
        if out.subruns > 0 {
            for h in &out.sub_hashes {
                hashes.insert(*h);
            }
        } else if nt {
            hashes.insert(log_hash(&out));
        }
        if let Some(i) = out.probes.get("interleaving_hash_lo") {
            interleavings.insert(*i);
        }
        if samples.len() < 2 && nt && r >= args.lane {
            samples.push(json!({"run": r, "scenario": shorten(&sc), "log_tail": out.log.iter().rev().take(6).rev().cloned().collect::<Vec<_>>() }));
        }
        hangs += out.viols.iter().filter(|v| v.sig.ends_with("/hang") || v.sig.contains("/hang/")).count();
        for v in &out.viols {
            if spec.owns.contains(&v.class.as_str()) {
                let c = per_sig.entry(v.sig.clone()).or_insert(0);
                *c += 1;
                if *c <= 2 {
                    let vsc = v.scenario.clone().unwrap_or(sc.clone());
                    viols.push(json!({"r": r, "class": v.class, "sig": v.sig, "msg": v.msg, "step": v.step, "nsteps": vsc["steps"].as_array().map(|a| a.len()).unwrap_or(0), "scenario": vsc}));
                }
            } else {
                *foreign.entry(v.class.clone()).or_insert(0) += 1;
            }
        }
        j += args.lanes;
    }
    drop(ctx);
    let _ = std::fs::remove_dir_all(&scratch);
    remove_scratch_base();
    let res = json!({
        "evaluations": evaluations,
        "hashes": hashes.iter().collect::<Vec<_>>(),
        "steps": steps,
        "faults": faults,
        "probes": probes,
        "viols": viols,
        "sig_counts": per_sig,
        "foreign": foreign,
        "samples": samples,
        "harness": harness,
        "cut_short": cut_short,
        "interleavings": interleavings.iter().collect::<Vec<_>>(),
    });
    if let Some(o) = &args.out {
        if std::fs::write(o, res.to_string()).is_err() {
            return 2;
        }
    } else {
        println!("{}", res);
    }
    0
}

fn shorten(sc: &Value) -> Value {
    // samples in evidence: keep the scenario readable (long hex blobs cut)
    let s = sc.to_string();
    if s.len() < 6000 {
        return sc.clone();
    }
    let mut v = sc.clone();
    if let Some(steps) = v["steps"].as_array_mut() {
        for st in steps.iter_mut() {
            if let Some(h) = st.get("hex").and_then(|h| h.as_str()) {
                if h.len() > 80 {
                    st["hex"] = json!(format!("{}...({} hex chars)", &h[..40], h.len()));
                }
            }
        }
        if steps.len() > 40 {
            let n = steps.len();
            steps.truncate(40);
            steps.push(json!({"note": format!("{} more steps omitted from the sample", n - 40)}));
        }
    }
    if let Some(keys) = v["keys"].as_array_mut() {
        for k in keys.iter_mut() {
            if let Some(s) = k.as_str() {
                if s.len() > 200 {
                    *k = json!(format!("{}...({} bytes)", &s.chars().take(40).collect::<String>(), s.len()));
                }
            }
        }
    }
    v
}

// ------------------------------------------------------------------------------------------ known findings
#[derive(Clone)]
pub struct Known {
    pub properties: Vec<String>,
    pub status: String,
    pub matches: Vec<String>,
    pub what: String,
}

pub fn load_known(verif: &Path) -> Vec<Known> {
    let p = verif.join("known_findings.json");
    let txt = match std::fs::read_to_string(&p) {
        Ok(t) => t,
        Err(_) => return Vec::new(),
    };
    let v: Value = serde_json::from_str(&txt).unwrap_or(json!([]));
    let mut out = Vec::new();
    for e in v.as_array().cloned().unwrap_or_default() {
        out.push(Known {
            properties: e["properties"].as_array().map(|a| a.iter().filter_map(|x| x.as_str().map(|s| s.to_string())).collect()).unwrap_or_default(),
            status: e["status"].as_str().unwrap_or("").to_string(),
            matches: e["match"].as_array().map(|a| a.iter().filter_map(|x| x.as_str().map(|s| s.to_string())).collect()).unwrap_or_default(),
            what: e["what"].as_str().unwrap_or("").to_string(),
        });
    }
    out
}

pub fn known_for<'a>(known: &'a [Known], id: &str, sig: &str) -> Option<&'a Known> {
    known.iter().find(|k| k.status == "known" && k.properties.iter().any(|p| p == id) && !k.matches.is_empty() && k.matches.iter().all(|m| sig.contains(m.as_str())))
}

// ------------------------------------------------------------------------------------------ minimisation
fn is_sysim(spec: &CheckSpec, sc: &Value) -> bool {
    spec.engine == "sysim" || sc.get("engine").and_then(|e| e.as_str()) == Some("sysim")
}

fn reproduces(ctx: &mut Ctx, spec: &CheckSpec, sc: &Value, sig: &str, tag: &str) -> Option<Viol> {
    let out = run_scenario(ctx, spec, sc, tag);
    out.viols.into_iter().find(|v| v.sig == sig)
}

pub fn minimise(ctx: &mut Ctx, spec: &CheckSpec, sc: &Value, sig: &str, budget_s: u64) -> Value {
    let start = std::time::Instant::now();
    let mut cur = sc.clone();
    if is_sysim(spec, sc) {
        return sysim::minimise(ctx, spec, sc, sig, budget_s);
    }
    let mut round = 0;
    loop {
        round += 1;
        let mut changed = false;
        // drop steps, last to first
        let n = cur["steps"].as_array().map(|a| a.len()).unwrap_or(0);
        for i in (0..n).rev() {
            if start.elapsed().as_secs() > budget_s {
                return cur;
            }
            let mut cand = cur.clone();
            cand["steps"].as_array_mut().unwrap().remove(i);
            if reproduces(ctx, spec, &cand, sig, "min").is_some() {
                cur = cand;
                changed = true;
            }
        }
        // shrink values
        let nv = cur["vals"].as_array().map(|a| a.len()).unwrap_or(0);
        for vi in 0..nv {
            let len = cur["vals"][vi]["len"].as_u64().unwrap_or(0);
            for cand_len in [0u64, 1, 9, 33, 1025, (1 << 20) + 1] {
                if cand_len >= len || start.elapsed().as_secs() > budget_s {
                    continue;
                }
                let mut cand = cur.clone();
                cand["vals"][vi]["len"] = json!(cand_len);
                // chunk plans refer to lengths: drop them when shrinking
                if let Some(steps) = cand["steps"].as_array_mut() {
                    for st in steps.iter_mut() {
                        if st.get("val").and_then(|v| v.as_u64()) == Some(vi as u64) {
                            if let Some(o) = st.as_object_mut() {
                                if o.contains_key("chunks") {
                                    let k = o["chunks"].as_array().map(|a| a.len()).unwrap_or(1).max(1) as u64;
                                    let base = cand_len / k;
                                    let mut c: Vec<u64> = (0..k).map(|_| base).collect();
                                    let s: u64 = c.iter().sum();
                                    if let Some(l) = c.last_mut() {
                                        *l += cand_len - s;
                                    }
                                    o.insert("chunks".into(), json!(c));
                                }
                                if let Some(sz) = o.get("opts").and_then(|op| op.get("size")).and_then(|s| s.as_u64()) {
                                    if sz == len {
                                        o["opts"]["size"] = json!(cand_len);
                                    }
                                }
                            }
                        }
                    }
                }
                if reproduces(ctx, spec, &cand, sig, "min").is_some() {
                    cur = cand;
                    changed = true;
                    break;
                }
            }
        }
        // simplify step arguments: drop optional fields
        let n = cur["steps"].as_array().map(|a| a.len()).unwrap_or(0);
        for i in 0..n {
            for f in ["chunks", "flush_after", "repoll", "clock_at_commit"] {
                if cur["steps"][i].get(f).is_some() && start.elapsed().as_secs() <= budget_s {
                    let mut cand = cur.clone();
                    cand["steps"][i].as_object_mut().unwrap().remove(f);
                    if reproduces(ctx, spec, &cand, sig, "min").is_some() {
                        cur = cand;
                        changed = true;
                    }
                }
            }
        }
        if !changed || round > 6 || start.elapsed().as_secs() > budget_s {
            break;
        }
    }
    cur
}

// ------------------------------------------------------------------------------------------ orchestration
pub fn orchestrate(args: &Args) -> i32 {
    let t0 = std::time::Instant::now();
    let spec = match checks::spec(&args.id).or_else(|| sysim::spec(&args.id)) {
        Some(s) => s,
        None => {
            eprintln!("unknown check {}", args.id);
            return 2;
        }
    };
    if spec.engine == "sysim" || matches!(spec.id, "C01" | "C14" | "C16" | "C18") {
        // seam self-test before anything is believed: a failure is a harness error, never a violation
        let mut st = sysim::selftest(&args.workers, &scratch_base().join("selftest"));
        for _ in 0..2 {
            if st.is_ok() {
                break;
            }
            std::thread::sleep(std::time::Duration::from_millis(500));
            st = sysim::selftest(&args.workers, &scratch_base().join("selftest"));
        }
        match st {
            Ok(_) => {}
            Err(e) => {
                eprintln!("HARNESS-ERROR: ptrace seam self-test failed: {e}");
                remove_scratch_base();
                return 2;
            }
        }
    }
    let total = total_runs(&spec, args);
    let lanes = args.lanes.min(total.max(1));
    let outdir = scratch_base().join("lanes");
    std::fs::create_dir_all(&outdir).ok();
    let exe = std::env::current_exe().unwrap();
    let mut children = Vec::new();
    for l in 0..lanes {
        let out = outdir.join(format!("lane{}.json", l));
        let mut c = Command::new(&exe);
        c.arg("lane").arg(&args.id).arg("--tier").arg(&args.tier).arg("--workers").arg(&args.workers).arg("--lane").arg(l.to_string()).arg("--lanes").arg(lanes.to_string()).arg("--out").arg(&out).arg("--seed").arg(args.seed.to_string());
        if let Some(r) = args.runs {
            c.arg("--runs").arg(r.to_string());
        }
        if let Some(r) = args.only_run {
            c.arg("--run").arg(r.to_string());
        }
        match c.spawn() {
            Ok(ch) => children.push((ch, out)),
            Err(e) => {
                eprintln!("cannot spawn lane: {e}");
                return 2;
            }
        }
    }
    let mut evaluations = 0u64;
    let mut hashes: BTreeSet<u64> = BTreeSet::new();
    let mut inter: BTreeSet<u64> = BTreeSet::new();
    let mut steps = 0u64;
    let mut faults: BTreeMap<String, u64> = BTreeMap::new();
    let mut probes: BTreeMap<String, u64> = BTreeMap::new();
    let mut foreign: BTreeMap<String, u64> = BTreeMap::new();
    let mut sig_counts: BTreeMap<String, u64> = BTreeMap::new();
    let mut viols: Vec<Value> = Vec::new();
    let mut samples: Vec<Value> = Vec::new();
    let mut harness: Vec<String> = Vec::new();
    let mut cut_short = false;
    for (mut ch, out) in children {
        let st = ch.wait();
        let ok = st.map(|s| s.success()).unwrap_or(false);
        let txt = std::fs::read_to_string(&out).unwrap_or_default();
        let v: Value = match serde_json::from_str(&txt) {
            Ok(v) if ok => v,
            _ => {
                harness.push(format!("lane {} failed", out.display()));
                continue;
            }
        };
        evaluations += v["evaluations"].as_u64().unwrap_or(0);
        steps += v["steps"].as_u64().unwrap_or(0);
        for h in v["hashes"].as_array().cloned().unwrap_or_default() {
            if let Some(x) = h.as_u64() {
                hashes.insert(x);
            }
        }
        for h in v["interleavings"].as_array().cloned().unwrap_or_default() {
            if let Some(x) = h.as_u64() {
                inter.insert(x);
            }
        }
        for (m, key) in [(&mut faults, "faults"), (&mut probes, "probes"), (&mut foreign, "foreign"), (&mut sig_counts, "sig_counts")] {
            if let Some(o) = v[key].as_object() {
                for (k, n) in o {
                    *m.entry(k.clone()).or_insert(0) += n.as_u64().unwrap_or(0);
                }
            }
        }
        viols.extend(v["viols"].as_array().cloned().unwrap_or_default());
        for s in v["samples"].as_array().cloned().unwrap_or_default() {
            if samples.len() < 3 {
                samples.push(s);
            }
        }
        for h in v["harness"].as_array().cloned().unwrap_or_default() {
            harness.push(h.as_str().unwrap_or("").to_string());
        }
        if v["cut_short"] == json!(true) {
            cut_short = true;
        }
    }
    let _ = std::fs::remove_dir_all(&outdir);
    if !harness.is_empty() {
        for h in &harness {
            eprintln!("HARNESS-ERROR: {}", h);
        }
        remove_scratch_base();
        return 2;
    }

    // classify violations
    let known = load_known(&args.verif);
    let mut by_sig: BTreeMap<String, Vec<Value>> = BTreeMap::new();
    for v in viols {
        by_sig.entry(v["sig"].as_str().unwrap_or("").to_string()).or_default().push(v);
    }
    let mut known_hit: BTreeMap<String, u64> = BTreeMap::new();
    let mut new_viol: Vec<(String, Value)> = Vec::new();
    for (sig, mut vs) in by_sig {
        vs.sort_by_key(|v| (v["nsteps"].as_u64().unwrap_or(0), v["r"].as_u64().unwrap_or(0)));
        if let Some(k) = known_for(&known, spec.id, &sig) {
            *known_hit.entry(k.what.clone()).or_insert(0) += sig_counts.get(&sig).cloned().unwrap_or(1);
        } else {
            new_viol.push((sig, vs[0].clone()));
        }
    }
    for (what, n) in &known_hit {
        println!("KNOWN-FINDING: property={} {} (hit {} times)", spec.id, what, n);
    }
    let mut exit = 0;
    let mut replay_paths = Vec::new();
    let mut unreproduced: Vec<String> = Vec::new();
    if !new_viol.is_empty() {
        exit = 1;
        let scratch = scratch_base().join("min");
        let mut ctx = Ctx::new(&args.workers, &scratch);
        let replays = std::env::var("VERIF_REPLAY_DIR").map(PathBuf::from).unwrap_or_else(|_| args.verif.join("replays"));
        std::fs::create_dir_all(&replays).ok();
        let per = (90 / new_viol.len().max(1) as u64).max(10);
        let mut hang_confirms = 0;
        for (i, (sig, v)) in new_viol.iter().enumerate() {
            let sc = v["scenario"].clone();
            // every re-execution of a hang costs a full watchdog period: hangs are not minimised, and only the
            // first three hang signatures are re-executed (the others are the same defect seen through other calls)
            let is_hang = sig.ends_with("/hang") || sig.contains("/hang/");
            if is_hang && hang_confirms >= 3 {
                let name = format!("{}-s{}-r{}-{:08x}.json", spec.id, args.seed, v["r"], hash_str(sig) as u32);
                let path = replays.join(name);
                let rep = json!({"property": spec.id, "engine": spec.engine, "class": v["class"], "sig": sig, "msg": v["msg"], "seed": args.seed, "tier": args.tier, "run": v["r"], "occurrences": sig_counts.get(sig), "replay_exact": "not re-executed (hang; three sibling hang signatures were re-executed and reproduced)", "scenario": sc});
                let _ = std::fs::write(&path, serde_json::to_string_pretty(&rep).unwrap_or_default());
                println!("VIOLATION property={} replay={}", spec.id, path.display());
                println!("  what: {}", first_line(v["msg"].as_str().unwrap_or(""), 400));
                println!("  signature: {}", sig);
                replay_paths.push(path.display().to_string());
                continue;
            }
            let min = if i < 8 && !is_hang { minimise(&mut ctx, &spec, &sc, sig, per) } else { sc.clone() };
            // confirm in the orchestrator process that the minimised scenario still fails the same way
            let confirmed = reproduces(&mut ctx, &spec, &min, sig, "confirm");
            let (final_sc, msg, reproduced) = match confirmed {
                Some(vv) => (min, vv.msg, true),
                None if is_hang => (sc.clone(), v["msg"].as_str().unwrap_or("").to_string(), false),
                None => match reproduces(&mut ctx, &spec, &sc, sig, "confirm0") {
                    Some(vv) => (sc.clone(), vv.msg, true),
                    None => (sc.clone(), v["msg"].as_str().unwrap_or("").to_string(), false),
                },
            };
            if is_hang && reproduced {
                hang_confirms += 1;
            }
            let name = format!("{}-s{}-r{}-{:08x}.json", spec.id, args.seed, v["r"], hash_str(sig) as u32);
            let path = replays.join(name);
            let rep = json!({
                "property": spec.id,
                "engine": spec.engine,
                "class": v["class"],
                "sig": sig,
                "msg": msg,
                "seed": args.seed,
                "tier": args.tier,
                "run": v["r"],
                "occurrences": sig_counts.get(sig),
                "replay_exact": reproduced,
                "original_steps": sc["steps"].as_array().map(|a| a.len()),
                "scenario": final_sc,
            });
            if !reproduced {
                // A finding that does not replay is not reported as a violation: every oracle here is a function of
                // the scenario except the wall-clock watchdog, so this is a timing artefact of a loaded machine.
                let _ = std::fs::create_dir_all(args.verif.join("replays/unreproduced"));
                let p2 = args.verif.join("replays/unreproduced").join(path.file_name().unwrap());
                let _ = std::fs::write(&p2, serde_json::to_string_pretty(&rep).unwrap_or_default());
                println!("UNREPRODUCED: property={} signature={} seen {} time(s) but the same scenario passed on re-execution; kept at {}", spec.id, sig, sig_counts.get(sig).cloned().unwrap_or(1), p2.display());
                unreproduced.push(sig.clone());
                continue;
            }
            let _ = std::fs::write(&path, serde_json::to_string_pretty(&rep).unwrap_or_default());
            println!("VIOLATION property={} replay={}", spec.id, path.display());
            println!("  what: {}", first_line(&msg, 400));
            println!("  signature: {}", sig);
            replay_paths.push(path.display().to_string());
        }
        if replay_paths.is_empty() {
            exit = 0;
        }
    }

    // public entry points of the tree that the workers' operation table does not know (warning only)
    let untabled = untabled_entry_points();
    if !untabled.is_empty() {
        println!("  warning: public entry points without a row in the operation table: {:?}", untabled);
    }
    // evidence
    let wall = t0.elapsed().as_secs_f64();
    let mut zero_probes: Vec<String> = Vec::new();
    for p in expected_probes(spec.id) {
        if probes.get(*p).cloned().unwrap_or(0) == 0 {
            zero_probes.push(p.to_string());
        }
    }
    let ex = if spec.engine == "sysim" { sysim::exhaustive_count(spec.id, &args.tier) } else { checks::exhaustive_count(spec.id, &args.tier) };
    let mut coverage = json!({
        "evaluations": evaluations,
        "distinct_nontrivial": hashes.len(),
        "rule": spec.rule,
        "samples": samples,
        "exhaustive": false,
        "exhaustive_core_runs": ex,
        "exhaustive_core_complete": ex > 0 && !cut_short && args.only_run.is_none(),
        "sim_steps": steps,
        "runs_per_hour": if wall > 0.0 { (evaluations as f64 / wall * 3600.0) as u64 } else { 0 },
        "seeds": {"base_seed": args.seed, "run_index_range": [0, total.saturating_sub(1)]},
        "fault_counts": faults,
        "probes": probes,
        "probes_at_zero": zero_probes,
        "violations_of_other_properties_seen": foreign,
        "known_findings_hit": known_hit,
        "components": {
            "real": ["cacache (three builds: sync-only, async-std, tokio)", "all dependencies", "async-std / tokio runtimes and their thread pools", "kernel tmpfs under /dev/shm"],
            "controlled": if spec.engine == "sysim" { json!(["order and outcome of every filesystem system call (ptrace)", "crash points", "wall clock"]) } else { json!(["operation history", "storage faults between operations", "wall clock (symbol interposition)", "stream-call schedule (chunking, flush, poll/drop)"]) },
            "stub": if spec.engine == "sysim" { json!(sysim::stubs(spec.id)) } else { json!([]) },
        },
        "flavours": ["sync/sync", "astd/sync", "astd/async", "tokio/sync", "tokio/async"],
        "simulated_time": "the library has no timers; time is reported as steps (API calls / FS system calls executed under control)",
    });
    if !inter.is_empty() {
        coverage["interleavings_distinct"] = json!(inter.len());
    }
    coverage["untabled_entry_points"] = json!(untabled);
    if !replay_paths.is_empty() {
        coverage["replays"] = json!(replay_paths);
    }
    if !unreproduced.is_empty() {
        coverage["unreproduced_signatures"] = json!(unreproduced);
    }
    let ev = json!({
        "property_id": spec.id,
        "tier": if args.tier == "quick" { "quick" } else { "thorough" },
        "seed": args.seed,
        "level": spec.level,
        "coverage": coverage,
        "assumptions": spec.assumptions,
        "wall_s": wall,
        "violations": replay_paths.len(),
    });
    let evdir = args.verif.join("evidence");
    std::fs::create_dir_all(&evdir).ok();
    if std::env::var("VERIF_NO_EVIDENCE").is_ok() {
        // sensitivity runs against a deliberately broken tree must not overwrite the evidence of the real tree
    } else if std::fs::write(evdir.join(format!("{}.json", spec.id)), serde_json::to_string_pretty(&ev).unwrap_or_default()).is_err() {
        eprintln!("HARNESS-ERROR: cannot write evidence");
        return 2;
    }
    println!("{} {}: {} runs ({} exhaustive-core), {} distinct non-trivial, {} steps, {:.1}s, {} new violation signature(s), {} known", spec.id, args.tier, evaluations, ex, hashes.len(), steps, wall, replay_paths.len(), known_hit.len());
    if !zero_probes.is_empty() {
        println!("  warning: probes at zero: {:?}", zero_probes);
    }
    remove_scratch_base();
    exit
}

fn first_line(s: &str, n: usize) -> String {
    let l = s.lines().next().unwrap_or("");
    l.chars().take(n).collect()
}

fn expected_probes(id: &str) -> &'static [&'static str] {
    match id {
        "C01" => &["damaged_content_opened", "damage_detected", "damaged_content_extracted"],
        "C02" => &["value_over_mmap_threshold", "mmap_path_taken"],
        "C05" => &["bucket_shared_by_foreign_key"],
        "C06" => &["bucket_nonempty_damaged", "bucket_has_invalid_utf8_line"],
        "C08" => &["commit_rejected", "mmap_path_taken"],
        "C09" => &["reader_saw_missing_content"],
        "C10" => &["listing_multi"],
        "C14" => &["abandoned_with_data", "pending_then_drop", "commit_rejected"],
        "C17" => &["reference_writer_record", "python_crosscheck_done"],
        "C16" => &["python_crosscheck_done"],
        "C18" => &["damaged_content_extracted"],
        "C19" => &["symlink_created"],
        "C20" => &["hostile_step"],
        _ => &[],
    }
}

// ------------------------------------------------------------------------------------------ replay
pub fn replay_main(args: &Args) -> i32 {
    let f = match &args.file {
        Some(f) => f.clone(),
        None => return 2,
    };
    let txt = match std::fs::read_to_string(&f) {
        Ok(t) => t,
        Err(e) => {
            eprintln!("cannot read {}: {e}", f.display());
            return 2;
        }
    };
    let rep: Value = match serde_json::from_str(&txt) {
        Ok(v) => v,
        Err(e) => {
            eprintln!("bad replay file: {e}");
            return 2;
        }
    };
    let id = rep["property"].as_str().unwrap_or("");
    let spec = match checks::spec(id).or_else(|| sysim::spec(id)) {
        Some(s) => s,
        None => return 2,
    };
    let scratch = scratch_base().join("replay");
    let mut ctx = Ctx::new(&args.workers, &scratch);
    ctx.keep_dirs = args.keep;
    let out = run_scenario(&mut ctx, &spec, &rep["scenario"], "replay");
    drop(ctx);
    if !args.keep {
        remove_scratch_base();
    }
    if let Some(h) = out.harness {
        eprintln!("HARNESS-ERROR: {}", h);
        return 2;
    }
    let sig = rep["sig"].as_str().unwrap_or("");
    for l in &out.log {
        println!("  {}", first_line(&l.to_string(), 300));
    }
    let mut hit = false;
    for v in &out.viols {
        let mine = v.sig == sig;
        println!("{} class={} sig={}\n    {}", if mine { "REPRODUCED" } else { "also" }, v.class, v.sig, first_line(&v.msg, 600));
        hit |= mine;
    }
    if hit {
        println!("VIOLATION property={} replay={}", id, f.display());
        1
    } else {
        println!("replay of {} did not reproduce signature {}", f.display(), sig);
        0
    }
}

/// print the scenario of one run (debugging aid)
pub fn gen_main(args: &Args) -> i32 {
    let spec = match checks::spec(&args.id).or_else(|| sysim::spec(&args.id)) {
        Some(s) => s,
        None => return 2,
    };
    let r = args.only_run.unwrap_or(0);
    let sc = generate(&spec, &args.tier, args.seed, r);
    if args.cmd == "trace" {
        let scratch = scratch_base().join("trace");
        let mut ctx = Ctx::new(&args.workers, &scratch);
        let out = run_scenario(&mut ctx, &spec, &sc, "t");
        println!("{}", serde_json::to_string(&sc).unwrap_or_default());
        for l in &out.log {
            println!("  {}", l.as_str().map(|s| s.to_string()).unwrap_or_else(|| l.to_string()));
        }
        for v in &out.viols {
            println!("VIOL {} {}\n   {}", v.class, v.sig, v.msg);
        }
        println!("subruns={} hashes={} faults={:?} probes={:?} harness={:?}", out.subruns, out.sub_hashes.len(), out.faults, out.probes, out.harness);
        drop(ctx);
        remove_scratch_base();
        return 0;
    }
    println!("{}", serde_json::to_string_pretty(&sc).unwrap_or_default());
    0
}

const TABLED: &[&str] = &[
    "write", "write_with_algo", "write_hash", "write_hash_with_algo", "create", "create_with_algo", "commit", "write_sync", "write_sync_with_algo", "write_hash_sync", "write_hash_sync_with_algo",
    "open", "open_hash", "open_sync", "open_hash_sync", "algorithm", "size", "metadata", "raw_metadata", "time", "integrity", "new", "check",
    "read", "read_hash", "read_sync", "read_hash_sync", "copy", "copy_unchecked", "copy_hash", "copy_hash_unchecked", "copy_sync", "copy_unchecked_sync", "copy_hash_sync", "copy_hash_unchecked_sync",
    "reflink", "reflink_unchecked", "reflink_hash", "reflink_sync", "reflink_hash_sync", "reflink_hash_unchecked_sync", "reflink_unchecked_sync",
    "hard_link", "hard_link_unchecked_sync", "hard_link_sync", "hard_link_hash_sync", "hard_link_hash_unchecked_sync",
    "metadata_sync", "exists", "exists_sync", "remove", "remove_hash", "clear", "remove_sync", "remove_hash_sync", "clear_sync", "remove_fully",
    "list_sync", "insert", "insert_async", "find", "find_async", "delete", "delete_async", "ls",
    "link_to", "link_to_hash", "link_to_sync", "link_to_hash_sync",
];

/// `pub fn` / `pub async fn` names in the API files of the tree under test that the operation table does not list
fn untabled_entry_points() -> Vec<String> {
    let repo = std::env::var("VERIF_REPO").unwrap_or_else(|_| "/repo".into());
    let mut out = Vec::new();
    for f in ["get.rs", "put.rs", "rm.rs", "ls.rs", "linkto.rs", "index.rs"] {
        let txt = std::fs::read_to_string(format!("{repo}/src/{f}")).unwrap_or_default();
        let mut in_tests = false;
        for l in txt.lines() {
            if l.contains("mod tests") {
                in_tests = true;
            }
            if in_tests {
                continue;
            }
            let t = l.trim_start();
            let rest = t.strip_prefix("pub async fn ").or_else(|| t.strip_prefix("pub fn "));
            if let Some(r) = rest {
                let name: String = r.chars().take_while(|c| c.is_alphanumeric() || *c == '_').collect();
                if !TABLED.contains(&name.as_str()) && !out.contains(&name) {
                    out.push(name);
                }
            }
        }
    }
    out
}
