// SplitMix64 seeding + xoshiro256**; implemented here so streams never depend on a crate version.
#[derive(Clone)]
pub struct Rng {
    s: [u64; 4],
}

pub fn splitmix(x: &mut u64) -> u64 {
    *x = x.wrapping_add(0x9E37_79B9_7F4A_7C15);
    let mut z = *x;
    z = (z ^ (z >> 30)).wrapping_mul(0xBF58_476D_1CE4_E5B9);
    z = (z ^ (z >> 27)).wrapping_mul(0x94D0_49BB_1331_11EB);
    z ^ (z >> 31)
}

pub fn mix(a: u64, b: u64) -> u64 {
    let mut x = a ^ b.rotate_left(32) ^ 0xD6E8_FEB8_6659_FD93;
    let r = splitmix(&mut x);
    r ^ splitmix(&mut x)
}

pub fn hash_bytes(b: &[u8]) -> u64 {
    let mut h: u64 = 0xcbf2_9ce4_8422_2325;
    for &c in b {
        h ^= c as u64;
        h = h.wrapping_mul(0x0000_0100_0000_01B3);
    }
    h
}

pub fn hash_str(s: &str) -> u64 {
    hash_bytes(s.as_bytes())
}

impl Rng {
    pub fn new(seed: u64) -> Rng {
        let mut x = seed;
        let s = [splitmix(&mut x), splitmix(&mut x), splitmix(&mut x), splitmix(&mut x)];
        Rng { s }
    }
    pub fn next_u64(&mut self) -> u64 {
        let r = self.s[1].wrapping_mul(5).rotate_left(7).wrapping_mul(9);
        let t = self.s[1] << 17;
        self.s[2] ^= self.s[0];
        self.s[3] ^= self.s[1];
        self.s[1] ^= self.s[2];
        self.s[0] ^= self.s[3];
        self.s[2] ^= t;
        self.s[3] = self.s[3].rotate_left(45);
        r
    }
    /// uniform in 0..n (n > 0)
    pub fn below(&mut self, n: u64) -> u64 {
        if n <= 1 {
            return 0;
        }
        // rejection-free multiply-shift is fine for simulation purposes
        ((self.next_u64() as u128 * n as u128) >> 64) as u64
    }
    pub fn range(&mut self, lo: u64, hi: u64) -> u64 {
        lo + self.below(hi - lo + 1)
    }
    pub fn chance(&mut self, num: u64, den: u64) -> bool {
        self.below(den) < num
    }
    pub fn pick<'a, T>(&mut self, xs: &'a [T]) -> &'a T {
        &xs[self.below(xs.len() as u64) as usize]
    }
    pub fn idx(&mut self, n: usize) -> usize {
        self.below(n as u64) as usize
    }
    pub fn shuffle<T>(&mut self, xs: &mut [T]) {
        for i in (1..xs.len()).rev() {
            let j = self.below(i as u64 + 1) as usize;
            xs.swap(i, j);
        }
    }
    pub fn fork(&mut self, label: &str) -> Rng {
        Rng::new(mix(self.next_u64(), hash_str(label)))
    }
    pub fn bytes_below(&mut self, n: u64) -> Vec<u8> {
        let k = self.below(n) as usize;
        self.bytes(k)
    }
    pub fn bytes(&mut self, n: usize) -> Vec<u8> {
        let mut v = Vec::with_capacity(n + 8);
        while v.len() < n {
            v.extend_from_slice(&self.next_u64().to_le_bytes());
        }
        v.truncate(n);
        v
    }
}
