// Seeded scenario generators (swarm style: every run draws its own shape, mix and sizes).
use serde_json::{json, Value};

use crate::prng::Rng;

pub const FLAVS: [(&str, &str); 5] = [("sync", "sync"), ("astd", "sync"), ("astd", "async"), ("tokio", "sync"), ("tokio", "async")];
pub const PURE: [(&str, &str); 3] = [("sync", "sync"), ("astd", "async"), ("tokio", "async")];
pub const ALGOS: [&str; 5] = ["sha256", "sha512", "sha1", "sha384", "xxh3"];

pub fn flav(rng: &mut Rng) -> (&'static str, &'static str) {
    *rng.pick(&FLAVS)
}

pub fn set_flav(st: &mut Value, f: (&str, &str)) {
    st["bin"] = json!(f.0);
    st["mode"] = json!(f.1);
}

pub fn hostile_keys() -> Vec<String> {
    let mut v: Vec<String> = vec![
        "", "a", "k", "K", "my-key", "a\tb", "a\nb", "\"q\"", "\u{0}", "nul\u{0}mid", "../x", "../../etc/passwd", "/etc/passwd", "a/b", "a/b/../c", "\u{e9}", "e\u{301}", "key with spaces", "\u{65e5}\u{672c}\u{8a9e}", "\u{1f980}", "\\back\\slash", "\u{7f}", "\r\n", "{\"key\":\"x\"}", "null", "\u{1}\u{2}\u{1f}", ".", "..", "index-v5", "tmp", "\u{feff}bom", "\u{202e}rtl", "line\u{2028}sep", "para\u{2029}sep", "next\u{85}line", "\u{fffd}", "\u{10ffff}", "v\u{b}tab\u{c}ff",
    ]
    .into_iter()
    .map(|s| s.to_string())
    .collect();
    v.push("x".repeat(4096));
    v.push("\u{e9}".repeat(700));
    v
}

pub fn pick_keys(rng: &mut Rng, n: usize, hostile: bool) -> Vec<String> {
    let pool = hostile_keys();
    let mut out: Vec<String> = Vec::new();
    let mut guard = 0;
    while out.len() < n && guard < 1000 {
        guard += 1;
        let k = if hostile && rng.chance(3, 4) {
            rng.pick(&pool).clone()
        } else if rng.chance(1, 5) {
            random_unicode(rng)
        } else {
            format!("key-{}", rng.below(1000))
        };
        if !out.contains(&k) {
            out.push(k);
        }
    }
    out
}

pub fn pick_keys_p(rng: &mut Rng, n: usize, num: u64, den: u64) -> Vec<String> {
    let h = rng.chance(num, den);
    pick_keys(rng, n, h)
}

pub fn random_unicode(rng: &mut Rng) -> String {
    let n = rng.range(1, 12);
    let mut s = String::new();
    for _ in 0..n {
        let c = match rng.below(6) {
            0 => rng.range(0x20, 0x7e) as u32,
            1 => rng.range(0xa0, 0x2ff) as u32,
            2 => rng.range(0x400, 0x4ff) as u32,
            3 => rng.range(0x4e00, 0x9fff) as u32,
            4 => rng.range(0x1f300, 0x1f6ff) as u32,
            _ => rng.range(0x0, 0x1f) as u32,
        };
        if let Some(ch) = char::from_u32(c) {
            s.push(ch);
        }
    }
    s
}

const SMALL_SIZES: [u64; 12] = [0, 1, 2, 5, 11, 31, 32, 33, 64, 100, 255, 256];
const MID_SIZES: [u64; 12] = [1023, 1024, 1025, 4095, 4096, 8191, 8192, 8193, 16383, 16384, 16385, 65537];
const BIG_SIZES: [u64; 4] = [1048575, 1048576, 1048577, 3 * 1048576 + 17];

pub fn pick_size(rng: &mut Rng, big_ppm: u64) -> u64 {
    if rng.below(1_000_000) < big_ppm {
        return *rng.pick(&BIG_SIZES);
    }
    match rng.below(10) {
        0..=5 => *rng.pick(&SMALL_SIZES),
        6..=8 => *rng.pick(&MID_SIZES),
        _ => rng.range(0, 3000),
    }
}

pub fn mk_vals(rng: &mut Rng, n: usize, big_ppm: u64) -> Vec<Value> {
    let mut v = Vec::new();
    let mut lens: Vec<u64> = Vec::new();
    for _ in 0..n {
        let mut len = pick_size(rng, big_ppm);
        // values shorter than 8 bytes carry only a prefix of their seed: keep their bytes unique by length
        if len < 8 && lens.contains(&len) {
            len = 8 + rng.below(24);
        }
        lens.push(len);
        v.push(json!({"seed": rng.next_u64() >> 1, "len": len}));
    }
    v
}

/// reader buffer size affordable for a value of `len` bytes (tiny buffers cost one blocking-pool round trip per read)
pub fn pick_buf(rng: &mut Rng, len: u64) -> u64 {
    if len <= 4096 {
        *rng.pick(&[1u64, 7, 1024, 8192, 65536])
    } else if len <= 40_000 {
        *rng.pick(&[7u64, 64, 1024, 8192, 65536])
    } else {
        *rng.pick(&[1024u64, 8192, 65536])
    }
}

pub fn chunking(rng: &mut Rng, len: u64) -> Option<Vec<u64>> {
    if len == 0 {
        return match rng.below(3) {
            0 => None,
            1 => Some(vec![0]),
            _ => Some(vec![0, 0]),
        };
    }
    match rng.below(7) {
        0 | 1 => None,
        2 => {
            // k equal chunks
            let k = rng.range(2, 5).min(len);
            let base = len / k;
            let mut c: Vec<u64> = (0..k).map(|_| base).collect();
            let s: u64 = c.iter().sum();
            *c.last_mut().unwrap() += len - s;
            Some(c)
        }
        3 => {
            // decreasing
            let mut left = len;
            let mut c = Vec::new();
            let mut cur = (len * 2 / 3).max(1);
            while left > 0 && c.len() < 12 {
                let n = cur.min(left);
                c.push(n);
                left -= n;
                cur = (cur / 2).max(1);
            }
            if left > 0 {
                c.push(left);
            }
            Some(c)
        }
        4 => {
            // with empty chunks
            let a = rng.range(0, len);
            Some(vec![0, a, 0, len - a, 0])
        }
        5 if len <= 48 => Some((0..len).map(|_| 1).collect()),
        _ => {
            // increasing: a later chunk is longer than an earlier one
            let a = rng.range(1, len.max(2) / 2).min(len);
            Some(vec![a, len - a])
        }
    }
}

pub fn meta_string(rng: &mut Rng) -> String {
    match rng.below(7) {
        6 => "line\u{2028}and\u{2029}paragraph separators, \u{85} and \u{fffd}".to_string(),
        0 => String::new(),
        1 => "plain".to_string(),
        2 => "tab\there \"quoted\" back\\slash\nnewline".to_string(),
        3 => "\u{0}\u{1}\u{1f}\u{7f}".to_string(),
        4 => "\u{e9}\u{65e5}\u{1f980}".to_string(),
        _ => random_unicode(rng),
    }
}

fn num_text(rng: &mut Rng) -> String {
    match rng.below(14) {
        0 => "0".into(),
        1 => "-1".into(),
        2 => "1".into(),
        3 => "9007199254740993".into(),
        4 => "-9007199254740993".into(),
        5 => "9223372036854775807".into(),
        6 => "-9223372036854775808".into(),
        7 => "18446744073709551615".into(),
        8 => "0.5".into(),
        9 => "-12.75".into(),
        10 => "3.14159".into(),
        11 => format!("{}.{}", rng.below(1000), rng.range(1, 9)),
        12 => format!("0.00{}", rng.range(1, 999)).trim_end_matches('0').to_string(),
        _ => rng.below(1 << 40).to_string(),
    }
}

/// JSON text in canonical form (sorted keys, shortest numbers) so text comparison is structural comparison.
pub fn meta_text(rng: &mut Rng, depth: u32) -> String {
    let leaf = depth >= 4 || rng.chance(1, 2);
    if leaf {
        return match rng.below(6) {
            0 => "null".into(),
            1 => "true".into(),
            2 => "false".into(),
            3 => crate::fmt::json_str(&meta_string(rng)),
            _ => num_text(rng),
        };
    }
    if rng.chance(1, 2) {
        let n = rng.below(4);
        let items: Vec<String> = (0..n).map(|_| meta_text(rng, depth + 1)).collect();
        format!("[{}]", items.join(","))
    } else {
        let n = rng.below(4);
        let mut keys: Vec<String> = Vec::new();
        for _ in 0..n {
            let k = if rng.chance(1, 3) { meta_string(rng) } else { format!("f{}", rng.below(50)) };
            if !keys.contains(&k) {
                keys.push(k);
            }
        }
        keys.sort();
        let items: Vec<String> = keys.iter().map(|k| format!("{}:{}", crate::fmt::json_str(k), meta_text(rng, depth + 1))).collect();
        format!("{{{}}}", items.join(","))
    }
}

pub fn meta_value(rng: &mut Rng) -> Value {
    let t = meta_text(rng, 0);
    serde_json::from_str(&t).unwrap_or(Value::Null)
}

pub fn time_text(rng: &mut Rng) -> String {
    match rng.below(10) {
        0 => "0".into(),
        1 => "1".into(),
        2 => "9007199254740991".into(),
        3 => "9007199254740993".into(),
        4 => "18446744073709551615".into(),
        5 => "18446744073709551616".into(),
        6 => "170141183460469231731687303715884105728".into(),
        7 => "340282366920938463463374607431768211455".into(),
        8 => ((rng.next_u64() as u128) << 64 | rng.next_u64() as u128).to_string(),
        _ => (1_600_000_000_000u64 + rng.below(1 << 38)).to_string(),
    }
}

pub struct WriteCfg {
    pub by_hash_pct: u64,
    pub rich_opts: bool, // metadata / raw / time
    pub declare_size_pct: u64,
    pub algos: bool,
    pub ends: bool, // abandoned writers
}

/// One write step with a random entry point, chunking and (always correct) declarations.
pub fn write_step(rng: &mut Rng, ki: Option<usize>, vi: usize, len: u64, cfg: &WriteCfg) -> Value {
    let algo = if cfg.algos { *rng.pick(&ALGOS) } else { "sha256" };
    let keyed = ki.is_some();
    let entry = match rng.below(6) {
        0 => "write",
        1 => "write_algo",
        2 if keyed => "create",
        3 if keyed => "create_algo",
        _ => "opts",
    };
    let mut st = json!({"k":"api","op":"write","val":vi,"entry":entry});
    if let Some(k) = ki {
        st["key"] = json!(k);
    }
    match entry {
        "write_algo" | "create_algo" => st["algo"] = json!(algo),
        "opts" => {
            let mut o = json!({});
            if algo != "sha256" || rng.chance(1, 2) {
                o["algo"] = json!(algo);
            }
            if rng.below(100) < cfg.declare_size_pct {
                // mostly the true size; sometimes one that the data will not match (the commit must be rejected and
                // leave every lookup as it was)
                o["size"] = if rng.chance(1, 6) { json!(if len > 0 && rng.chance(1, 2) { len - 1 } else { len + 1 + rng.below(3) }) } else { json!(len) };
            }
            if cfg.rich_opts && keyed {
                if rng.chance(1, 2) {
                    o["meta"] = meta_value(rng);
                }
                if rng.chance(1, 40) {
                    // a record larger than any reader buffer (one index line > 64 KiB)
                    o["meta"] = json!({"big": if rng.chance(1, 2) { "m".repeat(70_000 + rng.below(5000) as usize) } else { "\u{e9}\u{65e5}m".repeat(12_000 + rng.below(800) as usize) }});
                }
                if rng.chance(1, 3) {
                    o["raw"] = json!(hex::encode(rng.bytes_below(40)));
                }
                if rng.chance(1, 2) {
                    // anywhere from long before to long after the simulated clock (1.5e12 .. 1.8e12)
                    o["time"] = if rng.chance(1, 8) { json!(time_text(rng)) } else { json!((1_000_000_000_000u64 + rng.below(1 << 40)).to_string()) };
                }
                if rng.chance(1, 4) {
                    // a correctly declared integrity, single or multi-hash (the extra hash is of a weaker algorithm)
                    o["sri"] = if rng.chance(1, 2) || algo == "xxh3" { json!({"val":vi,"algo":algo}) } else { json!({"multi":[{"val":vi,"algo":algo},{"val":vi,"algo":"xxh3"}]}) };
                }
            }
            if rng.chance(1, 12) {
                // set first to other values, then to these (the builder's last call counts)
                let mut first = json!({});
                if o.get("size").is_some() {
                    first["size"] = json!(len + 1000);
                }
                if o.get("time").is_some() {
                    first["time"] = json!("5");
                }
                if o.get("meta").is_some() {
                    first["meta"] = json!({"first": 1});
                }
                if o.get("raw").is_some() {
                    first["raw"] = json!("ff");
                }
                o["first"] = first;
            }
            st["opts"] = o;
        }
        _ => {}
    }
    if !matches!(entry, "write" | "write_algo") {
        if let Some(c) = chunking(rng, len) {
            if rng.chance(1, 3) && !c.is_empty() {
                let i = rng.idx(c.len());
                st["flush_after"] = json!([i]);
            }
            st["chunks"] = json!(c);
        }
        if rng.chance(1, 8) {
            // the scatter/gather entry point of the writer (write_vectored): same bytes, two slices per call
            st["vectored"] = json!(true);
        }
    }
    st
}

pub fn scenario(check: &str, keys: Vec<String>, vals: Vec<Value>, steps: Vec<Value>, rng: &mut Rng) -> Value {
    json!({
        "check": check,
        "keys": keys,
        "vals": vals,
        // anywhere from 2017 to 2035: behind and ahead of the real clock that stamps the files
        "clock0": (1_500_000_000_000u64 + rng.below(1 << 39)).to_string(),
        "steps": steps,
    })
}

fn vlen(vals: &[Value], vi: usize) -> u64 {
    vals[vi]["len"].as_u64().unwrap_or(0)
}

fn audit(rng: &mut Rng, what: &[&str]) -> Value {
    let f = flav(rng);
    json!({"k":"audit","bin":f.0,"mode":f.1,"what":what})
}

// ---------------------------------------------------------------------------------------------
// history generator shared by C02/C05/C09/C10/C16/C17 (different mixes)
pub struct Mix {
    pub check: &'static str,
    pub nkeys: (u64, u64),
    pub nvals: (u64, u64),
    pub len: (u64, u64),
    pub hostile: bool,
    pub big_ppm: u64,
    pub w_write: u64,
    pub w_remove: u64,
    pub w_remove_hash: u64,
    pub w_remove_fully: u64,
    pub w_clear: u64,
    pub w_lookup: u64,
    pub w_read: u64,
    pub w_list: u64,
    pub w_write_hash: u64,
    pub audit_every: u64, // 0 = only at the end
    pub audit_what: &'static [&'static str],
    pub wcfg: WriteCfg,
}

pub fn gen_history(rng: &mut Rng, m: &Mix) -> Value {
    let nk = rng.range(m.nkeys.0, m.nkeys.1) as usize;
    let nv = rng.range(m.nvals.0, m.nvals.1) as usize;
    let keys = pick_keys(rng, nk, m.hostile);
    let vals = mk_vals(rng, nv, m.big_ppm);
    let n = rng.range(m.len.0, m.len.1);
    let maxlen = vals.iter().map(|v| v["len"].as_u64().unwrap_or(0)).max().unwrap_or(0);
    let total = m.w_write + m.w_remove + m.w_remove_hash + m.w_remove_fully + m.w_clear + m.w_lookup + m.w_read + m.w_list + m.w_write_hash;
    let mut steps = Vec::new();
    for i in 0..n {
        let mut x = rng.below(total);
        let ki = rng.idx(keys.len());
        let vi = rng.idx(vals.len());
        let f = flav(rng);
        let mut st;
        let earlier: Vec<&Value> = steps.iter().filter(|s: &&Value| s["op"] == "write").collect();
        if x < m.w_write && !earlier.is_empty() && rng.chance(1, 10) {
            // an earlier write issued again exactly as it was (same key, data, options, explicit time): an
            // idempotent retry, possibly through another flavour
            st = (*rng.pick(&earlier)).clone();
        } else if x < m.w_write {
            st = write_step(rng, Some(ki), vi, vlen(&vals, vi), &m.wcfg);
        } else {
            x -= m.w_write;
            if x < m.w_write_hash {
                st = write_step(rng, None, vi, vlen(&vals, vi), &m.wcfg);
            } else {
                x -= m.w_write_hash;
                if x < m.w_remove {
                    st = if rng.chance(1, 4) { json!({"k":"api","op":"remove_opts","fully":false,"key":ki}) } else { json!({"k":"api","op":"remove","key":ki}) };
                } else {
                    x -= m.w_remove;
                    if x < m.w_remove_hash {
                        let a = if m.wcfg.algos { *rng.pick(&ALGOS) } else { "sha256" };
                        st = json!({"k":"api","op":"remove_hash","addr":{"val":vi,"algo":a}});
                    } else {
                        x -= m.w_remove_hash;
                        if x < m.w_remove_fully {
                            st = json!({"k":"api","op":"remove_opts","fully":true,"key":ki});
                        } else {
                            x -= m.w_remove_fully;
                            if x < m.w_clear {
                                st = json!({"k":"api","op":"clear"});
                            } else {
                                x -= m.w_clear;
                                if x < m.w_lookup {
                                    st = json!({"k":"api","op": if rng.chance(1,4) {"find"} else {"metadata"},"key":ki});
                                } else {
                                    x -= m.w_lookup;
                                    if x < m.w_read {
                                        st = match rng.below(3) {
                                            0 => json!({"k":"api","op":"read","key":ki}),
                                            1 if rng.chance(1, 3) => json!({"k":"api","op":"reader","key":ki,"bufs":[*rng.pick(&[1u64, 7, 100, 5000]), *rng.pick(&[8192u64, 8193, 16384, 65536])],"eof_reads":rng.below(2)}),
                                            1 if rng.chance(1, 4) => json!({"k":"api","op":"reader","key":ki,"bufs":[4096],"to_end":*rng.pick(&[0u64, 1, 40, 5000])}),
                                            1 => json!({"k":"api","op":"reader","key":ki,"bufs":[pick_buf(rng, maxlen)]}),
                                            _ => json!({"k":"api","op":"read","addr":{"val":vi,"algo":"sha256"}}),
                                        };
                                    } else {
                                        st = json!({"k":"api","op":"list"});
                                    }
                                }
                            }
                        }
                    }
                }
            }
        }
        set_flav(&mut st, f);
        if st["op"] == "list" {
            st["mode"] = json!("sync");
        }
        steps.push(st);
        if m.audit_every > 0 && (i + 1) % m.audit_every == 0 {
            steps.push(audit(rng, m.audit_what));
        }
    }
    // final audits through all three pure flavours: a cache written by any flavour is read identically by the others
    for f in PURE {
        steps.push(json!({"k":"audit","bin":f.0,"mode":f.1,"what":m.audit_what}));
    }
    scenario(m.check, keys, vals, steps, rng)
}

pub fn gen_c02(rng: &mut Rng) -> Value {
    let big = if rng.chance(1, 12) { 400_000 } else { 20_000 };
    let m = Mix {
        check: "C02",
        nkeys: (1, 4),
        nvals: (1, 4),
        len: (1, 5),
        hostile: true,
        big_ppm: big,
        w_write: 6,
        w_write_hash: 3,
        w_remove: 0,
        w_remove_hash: 0,
        w_remove_fully: 0,
        w_clear: 0,
        w_lookup: 0,
        w_read: 2,
        w_list: 0,
        audit_every: 1,
        audit_what: &["read", "reader", "read_hash"],
        wcfg: WriteCfg { by_hash_pct: 30, rich_opts: false, declare_size_pct: 50, algos: true, ends: false },
    };
    let mut sc = gen_history(rng, &m);
    // a content file left damaged (e.g. by an earlier crash of another process): a later successful write of the
    // same bytes must still be readable afterwards
    if rng.chance(1, 4) {
        let nv = sc["vals"].as_array().map(|a| a.len()).unwrap_or(1);
        let steps = sc["steps"].as_array_mut().unwrap();
        let at = rng.idx(steps.len().saturating_sub(3).max(1));
        let a = *rng.pick(&ALGOS);
        let vi = rng.idx(nv);
        let dmg = match rng.below(3) {
            0 => json!({"k":"env","act":"truncate","content":{"val":vi,"algo":a},"len":0}),
            1 => json!({"k":"env","act":"truncate_frac","content":{"val":vi,"algo":a},"num":rng.below(1000)}),
            _ => json!({"k":"env","act":"flip_frac","content":{"val":vi,"algo":a},"num":rng.below(1000),"bit":rng.below(8)}),
        };
        steps.insert(at, dmg);
    }
    sc
}

fn all_flav_audit_c05() -> Vec<Value> {
    PURE.iter().map(|f| json!({"k":"audit","bin":f.0,"mode":f.1,"what":["metadata","read","list"]})).collect()
}

pub fn gen_c05(rng: &mut Rng) -> Value {
    if rng.chance(1, 14) {
        return gen_bucket_mates("C05", rng);
    }
    if rng.chance(1, 16) {
        // a streaming writer is open on a key while that key is removed for good (its bucket file is unlinked); the
        // commit that follows is the most recent successful write
        let keys = pick_keys_p(rng, 2, 1, 3);
        let vals = mk_vals(rng, 2, 0);
        let mut steps = Vec::new();
        let mut w0 = json!({"k":"api","op":"write","entry":"write","key":0,"val":0});
        set_flav(&mut w0, flav(rng));
        steps.push(w0);
        let len = vlen(&vals, 1).max(2);
        let a = rng.range(1, len - 1);
        let mut w = json!({"k":"api","op":"write","entry":*rng.pick(&["create","opts"]),"key":0,"val":1,"chunks":[a, len - a],"mid_after":0,"mid":{"act":"remove","bucket":0},"mid_deletes_bucket":true,"opts":{}});
        set_flav(&mut w, flav(rng));
        steps.push(w);
        steps.extend(all_flav_audit_c05());
        return scenario("C05", keys, vals, steps, rng);
    }
    let long = rng.chance(1, 6);
    let m = Mix {
        check: "C05",
        nkeys: (1, if long { 6 } else { 3 }),
        nvals: (2, 4),
        len: if long { (8, 40) } else { (2, 7) },
        hostile: rng.chance(1, 2),
        big_ppm: 0,
        w_write: 8,
        w_write_hash: 0,
        w_remove: 4,
        w_remove_hash: 1,
        w_remove_fully: 1,
        w_clear: 0,
        w_lookup: 3,
        w_read: 2,
        w_list: 0,
        audit_every: 1,
        audit_what: &["metadata", "read"],
        wcfg: WriteCfg { by_hash_pct: 0, rich_opts: true, declare_size_pct: 20, algos: false, ends: false },
    };
    let mut sc = gen_history(rng, &m);
    // rarely: one key with a very long history (a bucket of 70+ records)
    if rng.chance(1, 40) {
        let steps = sc["steps"].as_array_mut().unwrap();
        let f = flav(rng);
        let mut pre = Vec::new();
        let cjk = rng.chance(1, 2);
        for i in 0..rng.range(66, 80) {
            let mut o = json!({"time":i.to_string()});
            if cjk {
                // records full of multi-byte characters: any fixed-size chunking of the file splits some of them
                o["meta"] = json!({"t": "\u{65e5}\u{672c}\u{8a9e}\u{1f980}".repeat(40 + (i as usize % 7))});
            }
            pre.push(json!({"k":"api","op":"write","entry":"opts","key":0,"val":(i % 2),"opts":o,"bin":f.0,"mode":f.1}));
        }
        pre.push(json!({"k":"audit","bin":"sync","mode":"sync","what":["metadata","read"]}));
        let tail: Vec<Value> = steps.drain(..).collect();
        steps.extend(pre);
        steps.extend(tail);
    }
    // foreign-key records placed in a key's bucket file by the environment (valid records, another key)
    if rng.chance(1, 3) {
        let nk = sc["keys"].as_array().map(|a| a.len()).unwrap_or(1);
        let steps = sc["steps"].as_array_mut().unwrap();
        let n_ins = rng.range(1, 3);
        for _ in 0..n_ins {
            let at = rng.idx(steps.len().saturating_sub(3).max(1));
            let ki = rng.idx(nk);
            let tomb = rng.chance(1, 2);
            let rec = json!({"key": format!("foreign-{}", rng.below(5)), "integrity": if tomb { Value::Null } else { json!("sha256-47DEQpj8HBSa+/TImW+5JCeuQeRkm5NMpJWZG3hSuFU=") }, "time": 5, "size": 0, "metadata": null, "raw_metadata": null});
            steps.insert(at, json!({"k":"env","act":"append_record","bucket":ki,"rec":rec}));
        }
    }
    sc
}

/// exhaustive core: every history of length <= n over {2 keys} x {write short meta, write long meta, remove, lookup}
pub fn c05_alphabet() -> Vec<Value> {
    let mut a = Vec::new();
    for ki in 0..2 {
        a.push(json!({"k":"api","op":"write","entry":"opts","key":ki,"val":0,"opts":{"time":"7"}}));
        a.push(json!({"k":"api","op":"write","entry":"opts","key":ki,"val":1,"opts":{"time":"8","meta":{"long":"0123456789012345678901234567890123456789","n":[1,2,3]}}}));
        a.push(json!({"k":"api","op":"remove","key":ki}));
    }
    a
}

pub fn gen_c05_exhaustive(index: u64, len: u32, rng: &mut Rng) -> Value {
    let alpha = c05_alphabet();
    let mut steps = Vec::new();
    let mut x = index;
    for _ in 0..len {
        let mut st = alpha[(x % alpha.len() as u64) as usize].clone();
        x /= alpha.len() as u64;
        set_flav(&mut st, flav(rng));
        steps.push(st);
        let f = flav(rng);
        steps.push(json!({"k":"audit","bin":f.0,"mode":f.1,"what":["metadata","read","list"]}));
    }
    let vals = vec![json!({"seed": 11, "len": 9}), json!({"seed": 12, "len": 40})];
    let mut sc = scenario("C05", vec!["alpha".into(), "beta".into()], vals, steps, rng);
    sc["clock0"] = json!("1600000000000");
    sc["exhaustive_index"] = json!(index);
    sc
}

/// two value seeds (12-byte values) whose sha256 digests share the first two bytes: their content files are
/// neighbours in one shard directory (content-v2/sha256/xx/yy/)
pub fn shard_mates() -> (u64, u64) {
    use std::sync::OnceLock;
    static PAIR: OnceLock<(u64, u64)> = OnceLock::new();
    *PAIR.get_or_init(|| {
        let mut seen: std::collections::BTreeMap<[u8; 2], u64> = std::collections::BTreeMap::new();
        let mut seed = 1000u64;
        loop {
            let d = crate::hash::digest("sha256", &crate::interp::datagen_public(seed, 12));
            let k = [d[0], d[1]];
            if let Some(other) = seen.get(&k) {
                return (*other, seed);
            }
            seen.insert(k, seed);
            seed += 1;
        }
    })
}

/// two keys whose buckets are neighbours in one index directory (index-v5/xx/yy/): their SHA-1 digests share the first
/// two bytes; and a third key that only shares the first byte (index-v5/xx/)
pub fn bucket_mates() -> (String, String, String) {
    use std::sync::OnceLock;
    static T: OnceLock<(String, String, String)> = OnceLock::new();
    T.get_or_init(|| {
        let mut seen: std::collections::BTreeMap<String, String> = std::collections::BTreeMap::new();
        let mut pair: Option<(String, String)> = None;
        let mut i = 0u64;
        while pair.is_none() {
            let k = format!("mate-{i}");
            let h = crate::hash::sha1_hex(k.as_bytes());
            if let Some(o) = seen.get(&h[0..4]) {
                pair = Some((o.clone(), k.clone()));
            }
            seen.insert(h[0..4].to_string(), k);
            i += 1;
        }
        let (a, b) = pair.unwrap();
        let ha = crate::hash::sha1_hex(a.as_bytes());
        let mut j = 0u64;
        loop {
            let k = format!("cousin-{j}");
            let h = crate::hash::sha1_hex(k.as_bytes());
            if h[0..2] == ha[0..2] && h[0..4] != ha[0..4] {
                return (a, b, k);
            }
            j += 1;
        }
    })
    .clone()
}

/// histories over keys whose buckets share index directories: what is done to one key's bucket (and to the directories
/// above it) must not reach its neighbours
pub fn gen_bucket_mates(check: &str, rng: &mut Rng) -> Value {
    let (a, b, c) = bucket_mates();
    let keys = vec![a, b, c];
    let vals = vec![json!({"seed": rng.next_u64() >> 1, "len": 12}), json!({"seed": rng.next_u64() >> 1, "len": 30})];
    let mut steps = Vec::new();
    for ki in 0..3 {
        let mut w = json!({"k":"api","op":"write","entry":"write","key":ki,"val":rng.below(2)});
        set_flav(&mut w, flav(rng));
        steps.push(w);
    }
    let n = rng.range(1, 4);
    for _ in 0..n {
        let ki = rng.idx(3);
        let mut st = match rng.below(5) {
            0 | 1 => json!({"k":"api","op":"remove_opts","fully":true,"key":ki}),
            2 => json!({"k":"api","op":"remove","key":ki}),
            3 => json!({"k":"api","op":"write","entry":"write","key":ki,"val":rng.below(2)}),
            _ => json!({"k":"api","op":"remove_opts","fully":false,"key":ki}),
        };
        set_flav(&mut st, flav(rng));
        steps.push(st);
        let f = flav(rng);
        steps.push(json!({"k":"audit","bin":f.0,"mode":f.1,"what":["metadata","read","list"]}));
    }
    if rng.chance(1, 2) {
        // a listing during which the caller removes one of the keys for good (the iterator is lazy)
        let mut l = json!({"k":"api","op":"list","rm_key":rng.idx(3),"rm_at":rng.below(3)});
        set_flav(&mut l, flav(rng));
        l["mode"] = json!("sync");
        steps.push(l);
        let f = flav(rng);
        steps.push(json!({"k":"audit","bin":f.0,"mode":f.1,"what":["metadata","read","list"]}));
    }
    scenario(check, keys, vals, steps, rng)
}

pub fn gen_c09(rng: &mut Rng) -> Value {
    if rng.chance(1, 12) {
        return gen_bucket_mates("C09", rng);
    }
    if rng.chance(1, 10) {
        // neighbours in one content shard directory: removing one address (present, absent, twice) never touches the other
        let (a, b) = shard_mates();
        let keys = pick_keys_p(rng, 3, 1, 3);
        let vals = vec![json!({"seed": a, "len": 12}), json!({"seed": b, "len": 12})];
        let mut steps = Vec::new();
        let mut w = json!({"k":"api","op":"write","entry":"write","key":0,"val":0});
        set_flav(&mut w, flav(rng));
        steps.push(w);
        let n = rng.range(1, 4);
        for _ in 0..n {
            let mut st = match rng.below(5) {
                0 | 1 => json!({"k":"api","op":"remove_hash","addr":{"val":1,"algo":"sha256"}}),
                2 => json!({"k":"api","op":"write","entry":"write","key":1,"val":1}),
                3 => json!({"k":"api","op":"remove_opts","fully":true,"key":1}),
                _ => json!({"k":"api","op":"remove_hash","addr":{"val":0,"algo":"sha256"}}),
            };
            set_flav(&mut st, flav(rng));
            steps.push(st);
            let f = flav(rng);
            steps.push(json!({"k":"audit","bin":f.0,"mode":f.1,"what":["metadata","read","read_hash","exists","list"]}));
        }
        return scenario("C09", keys, vals, steps, rng);
    }
    let m = Mix {
        check: "C09",
        nkeys: (2, 8),
        nvals: (1, 3), // few values: keys share content
        len: (3, 30),
        hostile: rng.chance(1, 3),
        big_ppm: 0,
        w_write: 8,
        w_write_hash: 1,
        w_remove: 3,
        w_remove_hash: 2,
        w_remove_fully: 2,
        w_clear: 1,
        w_lookup: 1,
        w_read: 1,
        w_list: 1,
        audit_every: 1,
        audit_what: &["metadata", "read", "read_hash", "exists", "list"],
        wcfg: WriteCfg { by_hash_pct: 10, rich_opts: true, declare_size_pct: 0, algos: rng.chance(1, 3), ends: false },
    };
    let mut sc = gen_history(rng, &m);
    // a clear is sometimes followed by another one (another handle, another process clearing the same cache)
    if let Some(steps) = sc["steps"].as_array_mut() {
        let mut i = 0;
        while i < steps.len() {
            if steps[i]["op"] == "clear" && rng.chance(1, 4) {
                // a temp file a crashed writer left behind is there when the cache is cleared
                steps.insert(i, json!({"k":"env","act":"write_file","path":"$C/tmp/.tmpLEAKED","hex":"00ff"}));
                i += 1;
            }
            if steps[i]["op"] == "clear" && rng.chance(1, 3) {
                let mut again = json!({"k":"api","op":"clear"});
                set_flav(&mut again, flav(rng));
                steps.insert(i + 1, again);
                i += 1;
            }
            i += 1;
        }
    }
    if rng.chance(1, 10) {
        // one of the cache's top-level directories is a symlink to a directory elsewhere (moved to another disk and
        // linked back): removals and clear must still remove what they name
        if let Some(steps) = sc["steps"].as_array_mut() {
            let at = rng.idx(steps.len().min(4) + 1).min(steps.len());
            steps.insert(at, json!({"k":"env","act":"toplevel_symlink","path":format!("$C/{}", "content-v2"),"target":"$R/elsewhere"}));
        }
    }
    sc
}

pub fn gen_c10(rng: &mut Rng) -> Value {
    let many = rng.chance(1, 8);
    let m = Mix {
        check: "C10",
        nkeys: if many { (40, 200) } else { (1, 8) },
        nvals: (1, 3),
        len: if many { (60, 400) } else { (2, 25) },
        hostile: rng.chance(1, 2),
        big_ppm: 0,
        w_write: 8,
        w_write_hash: 0,
        w_remove: 4,
        w_remove_hash: 1,
        w_remove_fully: 1,
        w_clear: 0,
        w_lookup: 0,
        w_read: 0,
        w_list: 2,
        audit_every: if many { 50 } else { 3 },
        audit_what: &["metadata", "list"],
        wcfg: WriteCfg { by_hash_pct: 0, rich_opts: true, declare_size_pct: 10, algos: rng.chance(1, 3), ends: false },
    };
    let mut sc = gen_history(rng, &m);
    if !many && rng.chance(1, 8) {
        // a torn tail (crash in the middle of the last append, possibly inside a multi-byte character): listing and
        // lookup must still agree with each other, entry by entry
        let nk = sc["keys"].as_array().map(|a| a.len()).unwrap_or(1);
        let sc_keys: Vec<Value> = sc["keys"].as_array().cloned().unwrap_or_default();
        if let Some(steps) = sc["steps"].as_array_mut() {
            if rng.chance(1, 3) {
                // or: a foreign record with a valid checksum whose integrity text is not an integrity value
                let ki = rng.idx(nk);
                let key = sc_keys[ki].clone();
                steps.push(json!({"k":"env","act":"append_record","bucket":ki,"rec":{"key":key,"integrity":*rng.pick(&["md5-1B2M2Y8AsgTpgAmY7PhCfg==", "garbage", "sha256"]),"time":1,"size":0,"metadata":null,"raw_metadata":null}}));
            } else {
                // (the last record of that bucket is made dense with multi-byte characters first, so that the cut is
                // likely to end inside one)
                let ki = rng.idx(nk);
                let mut w = json!({"k":"api","op":"write","entry":"opts","key":ki,"val":0,"opts":{"meta":{"t":"\u{e9}\u{65e5}".repeat(40)}}});
                set_flav(&mut w, flav(rng));
                steps.push(w);
                steps.push(json!({"k":"env","act":"truncate_frac","bucket":ki,"num":rng.range(600, 999)}));
            }
            for f in PURE {
                steps.push(json!({"k":"audit","bin":f.0,"mode":f.1,"what":["metadata","list"]}));
            }
        }
    }
    sc
}

pub fn gen_c16(rng: &mut Rng) -> Value {
    let m = Mix {
        check: "C16",
        nkeys: (1, 5),
        nvals: (1, 2),
        len: (2, 14),
        hostile: false,
        big_ppm: if rng.chance(1, 15) { 300_000 } else { 0 },
        w_write: 8,
        w_write_hash: 4,
        w_remove: 0,
        w_remove_hash: 0,
        w_remove_fully: 0,
        w_clear: 0,
        w_lookup: 0,
        w_read: 2,
        w_list: 0,
        audit_every: 4,
        audit_what: &["read", "read_hash", "exists"],
        wcfg: WriteCfg { by_hash_pct: 30, rich_opts: false, declare_size_pct: 30, algos: true, ends: false },
    };
    let mut sc = gen_history(rng, &m);
    // writers whose declared size is wrong are rejected - and must leave the copy that is already stored byte-identical
    {
        let lens: Vec<u64> = sc["vals"].as_array().unwrap().iter().map(|v| v["len"].as_u64().unwrap_or(0)).collect();
        let steps = sc["steps"].as_array_mut().unwrap();
        for st in steps.iter_mut() {
            if st["op"] == "write" && st["entry"] == "opts" && rng.chance(1, 6) {
                let len = lens[st["val"].as_u64().unwrap_or(0) as usize];
                let wrong = match rng.below(4) { 0 => len + 1, 1 => len.saturating_sub(1), 2 => len / 2, _ => len + 300 };
                if wrong != len {
                    st["opts"]["size"] = json!(wrong);
                    if len >= 2 {
                        let a = rng.range(1, len - 1);
                        st["chunks"] = json!([a, len - a]);
                    }
                }
            }
        }
    }
    // damage one algorithm's copy: only reads addressed by that algorithm may fail; when the damage comes early,
    // later re-writes of the same bytes must repair the copy (a successful write is readable afterwards)
    if rng.chance(1, 2) {
        let nv = sc["vals"].as_array().map(|a| a.len()).unwrap_or(1);
        let steps = sc["steps"].as_array_mut().unwrap();
        let at = if rng.chance(1, 2) { steps.len().saturating_sub(3) } else { rng.idx(steps.len().saturating_sub(3).max(1)) };
        let a = *rng.pick(&ALGOS);
        let dmg = match rng.below(4) {
            0 => json!({"k":"env","act":"truncate","content":{"val":rng.idx(nv),"algo":a},"len":0}),
            1 => json!({"k":"env","act":"truncate_frac","content":{"val":rng.idx(nv),"algo":a},"num":rng.below(1000)}),
            _ => json!({"k":"env","act":"flip","content":{"val":rng.idx(nv),"algo":a},"byte":0,"bit":rng.below(8)}),
        };
        steps.insert(at, dmg);
    }
    sc
}

pub fn gen_c17(rng: &mut Rng) -> Value {
    let m = Mix {
        check: "C17",
        nkeys: (1, 5),
        nvals: (1, 3),
        len: (1, 12),
        hostile: true,
        big_ppm: 0,
        w_write: 8,
        w_write_hash: 1,
        w_remove: 3,
        w_remove_hash: 0,
        w_remove_fully: 0,
        w_clear: 0,
        w_lookup: 1,
        w_read: 1,
        w_list: 1,
        audit_every: 0,
        audit_what: &["metadata", "read", "list"],
        wcfg: WriteCfg { by_hash_pct: 10, rich_opts: true, declare_size_pct: 20, algos: true, ends: false },
    };
    let mut sc = gen_history(rng, &m);
    // the reference party writes too: records appended by the independent writer for the keys of the scenario
    let nk = sc["keys"].as_array().map(|a| a.len()).unwrap_or(1);
    let keys: Vec<String> = sc["keys"].as_array().unwrap().iter().map(|k| k.as_str().unwrap_or("").to_string()).collect();
    let n_ref = rng.below(4);
    let steps = sc["steps"].as_array_mut().unwrap();
    for _ in 0..n_ref {
        let at = rng.idx(steps.len().saturating_sub(3).max(1));
        let ki = rng.idx(nk);
        let tomb = rng.chance(1, 4);
        let rec = json!({
            "key": keys[ki],
            "integrity": if tomb { Value::Null } else { json!("sha512-z4PhNX7vuL3xVChQ1m2AB9Yg5AULVxXcg/SpIdNs6c5H0NE8XYXysP+DGNKHfuwvY7kxvUdBeoGlODJ6+SfaPg==") },
            "time": rng.below(1 << 50),
            "size": rng.below(1000),
            "metadata": meta_value(rng),
            "raw_metadata": if rng.chance(1,2) { Value::Null } else { json!(rng.bytes_below(6)) },
        });
        steps.insert(at, json!({"k":"env","act":"append_record","bucket":ki,"rec":rec}));
    }
    sc
}
