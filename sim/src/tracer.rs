// The scheduler of the system-call level simulator: every thread of every client stops at every
// system call; calls that touch the scenario root are parked until the simulator grants them, one
// at a time, with an action (execute / errno / shorten / kill). Everything else passes through.
use std::collections::BTreeMap;
use std::path::Path;

use crate::pt::*;

#[derive(Clone, Debug, PartialEq)]
pub enum Action {
    Exec,
    Errno(i32),
    Short(u64),     // shorten a data-carrying call to k bytes, let it run
    KillEntry,      // SIGKILL the client before the call happens
    KillExit,       // let the call complete, then SIGKILL
    ShortKill(u64), // shorten to k bytes, let that complete, then SIGKILL (torn write)
    ShortThenErr(u64, i32), // first call short, the retry of the remainder fails with errno
    ErrnoPersist(i32), // this call and every later call of the same kind by this client fail (the disk stays full / broken)
    TruncBefore(u64), // somebody else truncates the file this call names to k bytes just before the call runs
}

impl Action {
    pub fn label(&self) -> String {
        match self {
            Action::Exec => "exec".into(),
            Action::Errno(e) => format!("errno({})", errno_name(*e)),
            Action::Short(k) => format!("short({k})"),
            Action::KillEntry => "kill@entry".into(),
            Action::KillExit => "kill@exit".into(),
            Action::ShortKill(k) => format!("torn({k})+kill"),
            Action::ShortThenErr(k, e) => format!("short({k})+{}", errno_name(*e)),
            Action::ErrnoPersist(e) => format!("errno({})-from-here-on", errno_name(*e)),
            Action::TruncBefore(k) => format!("file-truncated-to({k})-under-the-call"),
        }
    }
    pub fn to_json(&self) -> serde_json::Value {
        use serde_json::json;
        match self {
            Action::Exec => json!({"a":"exec"}),
            Action::Errno(e) => json!({"a":"errno","e":e}),
            Action::Short(k) => json!({"a":"short","k":k}),
            Action::KillEntry => json!({"a":"kill_entry"}),
            Action::KillExit => json!({"a":"kill_exit"}),
            Action::ShortKill(k) => json!({"a":"short_kill","k":k}),
            Action::ShortThenErr(k, e) => json!({"a":"short_then_err","k":k,"e":e}),
            Action::ErrnoPersist(e) => json!({"a":"errno_persist","e":e}),
            Action::TruncBefore(k) => json!({"a":"trunc_before","k":k}),
        }
    }
    pub fn from_json(v: &serde_json::Value) -> Action {
        let k = v["k"].as_u64().unwrap_or(0);
        let e = v["e"].as_i64().unwrap_or(5) as i32;
        match v["a"].as_str().unwrap_or("exec") {
            "errno" => Action::Errno(e),
            "short" => Action::Short(k),
            "kill_entry" => Action::KillEntry,
            "kill_exit" => Action::KillExit,
            "short_kill" => Action::ShortKill(k),
            "short_then_err" => Action::ShortThenErr(k, e),
            "errno_persist" => Action::ErrnoPersist(e),
            "trunc_before" => Action::TruncBefore(k),
            _ => Action::Exec,
        }
    }
}

pub fn errno_name(e: i32) -> &'static str {
    match e {
        libc::EIO => "EIO",
        libc::ENOSPC => "ENOSPC",
        libc::EACCES => "EACCES",
        libc::EMFILE => "EMFILE",
        libc::ENFILE => "ENFILE",
        libc::EDQUOT => "EDQUOT",
        libc::ENOENT => "ENOENT",
        libc::EXDEV => "EXDEV",
        libc::EINTR => "EINTR",
        libc::ENOMEM => "ENOMEM",
        libc::ENODEV => "ENODEV",
        libc::EPERM => "EPERM",
        libc::EMLINK => "EMLINK",
        libc::EEXIST => "EEXIST",
        libc::EOPNOTSUPP => "EOPNOTSUPP",
        libc::EROFS => "EROFS",
        libc::EISDIR => "EISDIR",
        libc::ENOTDIR => "ENOTDIR",
        libc::EBUSY => "EBUSY",
        libc::EAGAIN => "EAGAIN",
        _ => "E?",
    }
}

#[derive(Clone, Debug)]
pub struct Event {
    pub client: usize,
    pub ord: usize,        // ordinal of this client's relevant syscalls
    pub op: Option<usize>, // API op in progress
    pub sys: Sys,
    pub ret: i64,
    pub action: Action,
    pub step: usize, // global step counter
}

pub enum Pump {
    Decide(Vec<(usize, i32)>), // (client idx, tid) of parked threads, sorted
    Done,
    Hang,
}

pub struct Tracer {
    pub clients: Vec<Client>,
    pub tid2client: BTreeMap<i32, usize>,
    pub root: String,
    pub events: Vec<Event>,
    pub all_mutations: Vec<(usize, Option<usize>, Sys, i64)>, // every mutating call with a path, relevant or not (C15)
    pub unknown_stops: BTreeMap<i32, i32>,
    pub hang: bool,
    pub watchdog_s: u32,
    /// the last time a client got somewhere: a call the scheduler cares about, an operation marker, an exit. A
    /// thread that spins in user space while a runtime thread of the same client wakes up every few seconds produces
    /// ptrace events for ever but no progress.
    pub last_progress: std::time::Instant,
    pub step: usize,
    pub passthrough: u64,
    pub error: Option<String>,
    pub emulate_ficlone: bool,
    pub ficlone_emulated: u64,
    pub short_then_err: BTreeMap<(usize, i32), i32>, // (client, fd) -> errno for the next write to that fd
    pub quiesce_timeouts: u64,
    pub held_polls: u64,
    pub tmpnames: BTreeMap<String, usize>, // random temp-file names in order of first appearance
    pub persist: BTreeMap<(usize, i64), i32>, // (client, syscall nr) -> errno for every further call of that kind
}

impl Tracer {
    pub fn new(root: &Path) -> Tracer {
        install_alarm_handler();
        Tracer {
            clients: Vec::new(),
            tid2client: BTreeMap::new(),
            root: normalize(&crate::penc::penc(root)),
            events: Vec::new(),
            all_mutations: Vec::new(),
            unknown_stops: BTreeMap::new(),
            hang: false,
            watchdog_s: 45,
            last_progress: std::time::Instant::now(),
            step: 0,
            passthrough: 0,
            error: None,
            emulate_ficlone: false,
            ficlone_emulated: 0,
            short_then_err: BTreeMap::new(),
            quiesce_timeouts: 0,
            held_polls: 0,
            tmpnames: BTreeMap::new(),
            persist: BTreeMap::new(),
        }
    }

    pub fn spawn(&mut self, bin: &Path, prog: &Path, out: &Path, cwd: &Path, env: &[(String, String)]) -> Result<usize, String> {
        let args = vec!["--program".to_string(), prog.display().to_string(), "--out".to_string(), out.display().to_string()];
        let pid = spawn_traced(bin, &args, cwd, env)?;
        let idx = self.clients.len();
        let mut threads = BTreeMap::new();
        threads.insert(pid, Thread { tid: pid, state: TState::Running, in_syscall: false, cur: None, inject_ret: None, post_kill: false, ficlone: false, ev_idx: None });
        self.clients.push(Client { idx, pid, threads, fds: BTreeMap::new(), cwd: cwd_string(cwd), n_rel: 0, exit: None, out_path: normalize(&crate::penc::penc(out)), cur_op: None, ops_done: 0, killed: false });
        self.tid2client.insert(pid, idx);
        Ok(idx)
    }

    fn relevant(&self, s: &Sys) -> bool {
        let under = |p: &Option<String>| p.as_ref().map(|p| p == &self.root || p.starts_with(&format!("{}/", self.root))).unwrap_or(false);
        under(&s.path) || (under(&s.path2) && s.nr != SYS_SYMLINK && s.nr != SYS_SYMLINKAT)
    }

    fn resume(&mut self, tid: i32, sig: i32) {
        if ptrace(libc::PTRACE_SYSCALL, tid, 0, sig as usize) < 0 {
            // the thread may have been killed meanwhile; the exit event will follow
        }
    }

    pub fn kill_client(&mut self, c: usize) {
        let pid = self.clients[c].pid;
        self.clients[c].killed = true;
        unsafe {
            libc::kill(pid, libc::SIGKILL);
        }
        // reap every thread of the killed client now (other clients are stopped, their events are handled normally)
        let mut guard = 0;
        while self.clients[c].threads.values().any(|t| t.state != TState::Exited) && guard < 10_000 {
            guard += 1;
            let mut status = 0;
            unsafe { libc::alarm(5) };
            let r = unsafe { libc::waitpid(-1, &mut status, libc::__WALL) };
            unsafe { libc::alarm(0) };
            if r <= 0 {
                break;
            }
            if self.tid2client.get(&r) == Some(&c) {
                if libc::WIFEXITED(status) || libc::WIFSIGNALED(status) {
                    self.on_gone(r, status);
                }
                // stops of a dying thread are ignored: SIGKILL is already pending
            } else {
                self.handle(r, status);
            }
        }
        for t in self.clients[c].threads.values_mut() {
            t.state = TState::Exited;
        }
        if self.clients[c].exit.is_none() {
            self.clients[c].exit = Some("killed".into());
        }
    }

    pub fn kill_all(&mut self) {
        for c in 0..self.clients.len() {
            if self.clients[c].live() {
                self.kill_client(c);
            }
        }
        // reap
        loop {
            let mut status = 0;
            let r = unsafe { libc::waitpid(-1, &mut status, libc::__WALL | libc::WNOHANG) };
            if r <= 0 {
                if self.clients.iter().all(|c| !c.live()) {
                    break;
                }
                // wait a little for the kernel to deliver
                let mut st2 = 0;
                unsafe { libc::alarm(2) };
                let r2 = unsafe { libc::waitpid(-1, &mut st2, libc::__WALL) };
                unsafe { libc::alarm(0) };
                if r2 <= 0 {
                    break;
                }
                self.on_gone(r2, st2);
                continue;
            }
            if libc::WIFEXITED(status) || libc::WIFSIGNALED(status) {
                self.on_gone(r, status);
            }
        }
        for c in self.clients.iter_mut() {
            for t in c.threads.values_mut() {
                t.state = TState::Exited;
            }
            if c.exit.is_none() {
                c.exit = Some("killed".into());
            }
        }
    }

    fn on_gone(&mut self, tid: i32, status: i32) {
        if let Some(&c) = self.tid2client.get(&tid) {
            if let Some(t) = self.clients[c].threads.get_mut(&tid) {
                t.state = TState::Exited;
            }
            if tid == self.clients[c].pid || self.clients[c].threads.values().all(|t| t.state == TState::Exited) {
                let desc = if libc::WIFEXITED(status) { format!("exit({})", libc::WEXITSTATUS(status)) } else { format!("signal({})", libc::WTERMSIG(status)) };
                if tid == self.clients[c].pid {
                    self.clients[c].exit = Some(desc);
                    // the leader's exit status is reported when the whole group is gone
                    for t in self.clients[c].threads.values_mut() {
                        t.state = TState::Exited;
                    }
                }
            }
        }
    }

    fn register_thread(&mut self, tid: i32, c: usize) {
        self.tid2client.insert(tid, c);
        self.clients[c].threads.entry(tid).or_insert(Thread { tid, state: TState::Running, in_syscall: false, cur: None, inject_ret: None, post_kill: false, ficlone: false, ev_idx: None });
    }

    /// handle one wait status
    fn handle(&mut self, tid: i32, status: i32) {
        if libc::WIFEXITED(status) || libc::WIFSIGNALED(status) {
            self.on_gone(tid, status);
            return;
        }
        if !libc::WIFSTOPPED(status) {
            return;
        }
        let c = match self.tid2client.get(&tid).cloned() {
            Some(c) => c,
            None => {
                // a new thread can report its first stop before the parent's clone event arrives
                match tgid_of(tid).and_then(|tg| self.tid2client.get(&tg).cloned()) {
                    Some(c) => {
                        self.register_thread(tid, c);
                        c
                    }
                    None => {
                        self.unknown_stops.insert(tid, status);
                        return;
                    }
                }
            }
        };
        let sig = libc::WSTOPSIG(status);
        let event = (status >> 16) & 0xff;
        if sig == (libc::SIGTRAP | 0x80) {
            self.on_syscall_stop(c, tid);
            return;
        }
        if sig == libc::SIGTRAP && event != 0 {
            if event == libc::PTRACE_EVENT_CLONE || event == libc::PTRACE_EVENT_FORK || event == libc::PTRACE_EVENT_VFORK {
                let mut newtid: libc::c_ulong = 0;
                ptrace(libc::PTRACE_GETEVENTMSG, tid, 0, &mut newtid as *mut _ as usize);
                let nt = newtid as i32;
                self.register_thread(nt, c);
                if let Some(_st) = self.unknown_stops.remove(&nt) {
                    self.resume(nt, 0);
                }
            }
            self.resume(tid, 0);
            return;
        }
        if sig == libc::SIGSTOP {
            // initial stop of a freshly cloned thread (or a stray SIGSTOP): do not deliver
            self.resume(tid, 0);
            return;
        }
        // signal-delivery stop: pass the signal on
        self.resume(tid, sig);
    }

    fn on_syscall_stop(&mut self, c: usize, tid: i32) {
        let op = syscall_op(tid);
        let regs = match getregs(tid) {
            Some(r) => r,
            None => return,
        };
        if op == 1 {
            // ---- entry
            let pid = self.clients[c].pid;
            let sys = self.clients[c].decode(pid, &regs);
            // markers on the out fd
            if sys.nr == SYS_WRITE && sys.path.as_deref() == Some(self.clients[c].out_path.as_str()) {
                let buf = read_mem(pid, sys.args[1], (sys.args[2] as usize).min(64));
                let txt = String::from_utf8_lossy(&buf).to_string();
                self.last_progress = std::time::Instant::now();
                if let Some(rest) = txt.strip_prefix("B ") {
                    self.clients[c].cur_op = rest.trim().split_whitespace().next().and_then(|x| x.parse().ok());
                } else if txt.starts_with("E ") {
                    self.clients[c].cur_op = None;
                    self.clients[c].ops_done += 1;
                }
                if let Some(t) = self.clients[c].threads.get_mut(&tid) {
                    t.cur = Some(sys);
                }
                self.passthrough += 1;
                self.resume(tid, 0);
                return;
            }
            if sys.nr == 231 && self.clients[c].threads.values().filter(|t| t.state != TState::Exited).count() > 1 {
                // exit_group of a multi-threaded client: let its background work (temp-file cleanup on pool
                // threads) finish first, so that what is left on disk does not depend on real thread timing
                if let Some(t) = self.clients[c].threads.get_mut(&tid) {
                    t.cur = Some(sys);
                    t.state = TState::ExitHeld;
                }
                return;
            }
            let rel = self.relevant(&sys);
            if rel {
                self.last_progress = std::time::Instant::now();
                for p in [&sys.path, &sys.path2].into_iter().flatten() {
                    if let Some(i) = p.find("/tmp/.tmp") {
                        let name = p[i + 5..].to_string();
                        let n = self.tmpnames.len();
                        self.tmpnames.entry(name).or_insert(n);
                    }
                }
                // a pending "retry fails" for this fd?
                let cl = &mut self.clients[c];
                cl.n_rel += 1;
                if let Some(t) = cl.threads.get_mut(&tid) {
                    t.cur = Some(sys);
                    t.state = TState::Parked;
                }
                return; // not resumed: parked
            }
            if sys.mutating && sys.path.is_some() {
                // mutation outside the scenario root: recorded for C15, never scheduled
                let cur_op = self.clients[c].cur_op;
                self.all_mutations.push((c, cur_op, sys.clone(), 0));
            }
            if let Some(t) = self.clients[c].threads.get_mut(&tid) {
                t.cur = Some(sys);
            }
            self.passthrough += 1;
            self.resume(tid, 0);
        } else {
            // ---- exit
            let (cur, granted, inject, post_kill, ficlone, ev_idx) = {
                let t = match self.clients[c].threads.get_mut(&tid) {
                    Some(t) => t,
                    None => return,
                };
                (t.cur.take(), t.state == TState::Granted, t.inject_ret.take(), std::mem::replace(&mut t.post_kill, false), std::mem::replace(&mut t.ficlone, false), t.ev_idx.take())
            };
            let mut ret = regs.rax as i64;
            if let Some(v) = inject {
                let mut r2 = regs;
                r2.rax = v as u64;
                setregs(tid, &r2);
                ret = v;
            } else if ficlone {
                // emulated FICLONE: a full in-kernel copy happened; report plain success
                let mut r2 = regs;
                if ret >= 0 {
                    r2.rax = 0;
                    ret = 0;
                }
                setregs(tid, &r2);
            }
            if let Some(sys) = cur {
                self.clients[c].after(&sys, ret);
                if sys.nr == SYS_CLOSE {
                    // a scheduled "the retry on this descriptor fails" ends with the descriptor
                    self.short_then_err.remove(&(c, sys.args[0] as i32));
                }
                if granted {
                    if let Some(t) = self.clients[c].threads.get_mut(&tid) {
                        t.state = TState::Running;
                    }
                    if let Some(i) = ev_idx {
                        self.events[i].ret = ret;
                    }
                }
            }
            if post_kill {
                self.kill_client(c);
                return;
            }
            self.resume(tid, 0);
        }
    }

    /// Grant a parked syscall with an action.
    pub fn grant(&mut self, c: usize, tid: i32, action: Action) {
        self.last_progress = std::time::Instant::now();
        let sys = self.clients[c].threads[&tid].cur.clone().unwrap_or_default();
        // ordinal of this call among the client's granted relevant syscalls
        let ord = self.events.iter().filter(|e| e.client == c).count();
        self.step += 1;
        let cur_op = self.clients[c].cur_op;
        let mut eff = action.clone();
        // a persistent fault on this kind of call overrides
        if let Action::ErrnoPersist(e) = eff {
            self.persist.insert((c, sys.nr), e);
            eff = Action::Errno(e);
        } else if eff == Action::Exec {
            if let Some(e) = self.persist.get(&(c, sys.nr)) {
                eff = Action::Errno(*e);
            }
        }
        // a scheduled "retry fails" on this fd overrides
        if sys.data_write {
            if let Some(fd) = sys.fd {
                if let Some(e) = self.short_then_err.remove(&(c, fd)) {
                    eff = Action::Errno(e);
                }
            }
        }
        self.events.push(Event { client: c, ord, op: cur_op, sys: sys.clone(), ret: i64::MIN, action: eff.clone(), step: self.step });
        let ev_i = self.events.len() - 1;
        if let Some(t) = self.clients[c].threads.get_mut(&tid) {
            t.ev_idx = Some(ev_i);
        }
        if sys.mutating && sys.path.is_some() {
            self.all_mutations.push((c, cur_op, sys.clone(), 0));
        }
        match eff {
            Action::KillEntry => {
                if let Some(ev) = self.events.last_mut() {
                    ev.ret = -9999; // never executed
                }
                self.kill_client(c);
                return;
            }
            Action::TruncBefore(k) => {
                // the environment's doing, from outside the client: then the call runs as it is
                if let Some(p) = &sys.path {
                    if let Ok(f) = std::fs::OpenOptions::new().write(true).open(crate::penc::pdec(p)) {
                        let _ = f.set_len(k);
                    }
                }
            }
            Action::Errno(e) | Action::ErrnoPersist(e) => {
                if let Some(mut regs) = getregs(tid) {
                    regs.orig_rax = u64::MAX; // skip the call
                    setregs(tid, &regs);
                }
                if let Some(t) = self.clients[c].threads.get_mut(&tid) {
                    t.inject_ret = Some(-(e as i64));
                }
            }
            Action::Short(k) | Action::ShortKill(k) | Action::ShortThenErr(k, _) => {
                if let Some(mut regs) = getregs(tid) {
                    match sys.nr {
                        SYS_WRITE | SYS_PWRITE64 => regs.rdx = k.min(regs.rdx),
                        // a short read: fewer bytes than asked for, more would have been available (legal)
                        SYS_READ | SYS_PREAD64 => regs.rdx = k.max(1).min(regs.rdx),
                        // gathered write: only the first of the buffers is taken (a short count at a buffer boundary)
                        SYS_WRITEV => regs.rdx = 1.min(regs.rdx),
                        SYS_COPY_FILE_RANGE => regs.r8 = k.min(regs.r8),
                        SYS_SENDFILE => regs.r10 = k.min(regs.r10),
                        _ => {}
                    }
                    setregs(tid, &regs);
                }
                if let Action::ShortKill(_) = eff {
                    if let Some(t) = self.clients[c].threads.get_mut(&tid) {
                        t.post_kill = true;
                    }
                }
                if let Action::ShortThenErr(_, e) = eff {
                    if let Some(fd) = sys.fd {
                        self.short_then_err.insert((c, fd), e);
                    }
                }
            }
            Action::KillExit => {
                if let Some(t) = self.clients[c].threads.get_mut(&tid) {
                    t.post_kill = true;
                }
            }
            Action::Exec => {
                if self.emulate_ficlone && sys.nr == SYS_IOCTL && sys.args[1] == FICLONE {
                    // neither tmpfs nor ext4 can reflink: turn the call into an in-kernel full copy
                    let pid = self.clients[c].pid;
                    let src_fd = sys.args[2] as i32;
                    let len = std::fs::metadata(format!("/proc/{}/fd/{}", pid, src_fd)).map(|m| m.len()).unwrap_or(0);
                    if let Some(mut regs) = getregs(tid) {
                        regs.orig_rax = SYS_COPY_FILE_RANGE as u64;
                        regs.rdi = src_fd as u64;
                        regs.rsi = 0;
                        regs.rdx = sys.args[0];
                        regs.r10 = 0;
                        regs.r8 = len;
                        regs.r9 = 0;
                        setregs(tid, &regs);
                    }
                    if let Some(t) = self.clients[c].threads.get_mut(&tid) {
                        t.ficlone = true;
                    }
                    self.ficlone_emulated += 1;
                }
            }
        }
        if let Some(t) = self.clients[c].threads.get_mut(&tid) {
            t.state = TState::Granted;
        }
        self.resume(tid, 0);
    }

    fn thread_blocked(pid: i32, tid: i32) -> bool {
        // state 'S' (interruptible sleep) inside a system call that waits for another thread or a timer
        let stat = match std::fs::read_to_string(format!("/proc/{}/task/{}/stat", pid, tid)) {
            Ok(s) => s,
            Err(_) => return true, // gone
        };
        let state = stat.rsplit(") ").next().and_then(|r| r.chars().next()).unwrap_or('?');
        if state == 'Z' || state == 'X' {
            return true;
        }
        if state != 'S' {
            return false;
        }
        let sc = std::fs::read_to_string(format!("/proc/{}/task/{}/syscall", pid, tid)).unwrap_or_default();
        let nr: i64 = sc.split_whitespace().next().and_then(|x| x.parse().ok()).unwrap_or(-1);
        // futex, epoll_wait, epoll_pwait, epoll_pwait2, poll, ppoll, nanosleep, clock_nanosleep, read (eventfd/pipe), select, pselect6, wait4, rt_sigtimedwait
        matches!(nr, 202 | 232 | 281 | 441 | 7 | 271 | 35 | 230 | 0 | 23 | 270 | 61 | 128)
    }

    /// returns true if it handled new wait events while waiting for the clients to become quiescent
    fn quiesce_wait(&mut self, live: &[usize]) -> bool {
        let mut handled = false;
        let start = std::time::Instant::now();
        loop {
            let mut all_q = true;
            for &c in live {
                let cl = &self.clients[c];
                if cl.threads.len() <= 1 {
                    continue;
                }
                for t in cl.threads.values() {
                    if t.state == TState::Running && !Self::thread_blocked(cl.pid, t.tid) {
                        all_q = false;
                        break;
                    }
                }
                if !all_q {
                    break;
                }
            }
            if all_q {
                // a last look for events that arrived meanwhile
                let mut status = 0;
                let r = unsafe { libc::waitpid(-1, &mut status, libc::__WALL | libc::WNOHANG) };
                if r > 0 {
                    self.handle(r, status);
                    return true;
                }
                return handled;
            }
            let mut status = 0;
            let r = unsafe { libc::waitpid(-1, &mut status, libc::__WALL | libc::WNOHANG) };
            if r > 0 {
                self.handle(r, status);
                handled = true;
                return true;
            }
            if start.elapsed().as_millis() > 300 {
                self.quiesce_timeouts += 1;
                return handled;
            }
            std::thread::sleep(std::time::Duration::from_micros(30));
        }
    }

    /// Process wait events until a decision is needed (every live client has a parked thread and
    /// nothing granted is still in flight), or everything has exited, or the watchdog fires.
    /// release held exit_group calls whose client has become idle; returns (released any, some still held)
    fn service_exit_held(&mut self) -> (bool, bool) {
        let mut released = false;
        let mut held = false;
        for c in 0..self.clients.len() {
            let hold: Vec<i32> = self.clients[c].threads.values().filter(|t| t.state == TState::ExitHeld).map(|t| t.tid).collect();
            if hold.is_empty() {
                continue;
            }
            let pid = self.clients[c].pid;
            let busy = self.clients[c].threads.values().any(|t| match t.state {
                TState::Parked | TState::Granted => true,
                TState::Running => !Self::thread_blocked(pid, t.tid),
                _ => false,
            });
            if busy {
                held = true;
                continue;
            }
            for tid in hold {
                if let Some(t) = self.clients[c].threads.get_mut(&tid) {
                    t.state = TState::Running;
                    t.cur = None;
                }
                self.resume(tid, 0);
                released = true;
            }
        }
        (released, held)
    }

    pub fn pump(&mut self) -> Pump {
        loop {
            if self.last_progress.elapsed().as_secs() > self.watchdog_s as u64 + 5 {
                self.hang = true;
                return Pump::Hang;
            }
            let (_released, held) = self.service_exit_held();
            let any_granted = self.clients.iter().any(|c| c.live() && c.threads.values().any(|t| t.state == TState::Granted));
            let live: Vec<usize> = self.clients.iter().filter(|c| c.live()).map(|c| c.idx).collect();
            if live.is_empty() {
                return Pump::Done;
            }
            let exit_waiting = |cl: &Client| cl.parked().is_empty() && cl.threads.values().any(|t| t.state == TState::ExitHeld);
            if !any_granted && live.iter().any(|&c| !self.clients[c].parked().is_empty()) && live.iter().all(|&c| !self.clients[c].parked().is_empty() || (exit_waiting(&self.clients[c]) && !self.clients[c].threads.values().any(|t| t.state == TState::Running && !Self::thread_blocked(self.clients[c].pid, t.tid)))) {
                // multi-threaded clients: decide only when every other thread is parked or blocked in the kernel,
                // so that the set of parked calls does not depend on real thread timing
                if self.quiesce_wait(&live) {
                    continue; // new events were handled: re-evaluate
                }
                let mut v: Vec<(usize, i32, String)> = Vec::new();
                for &c in &live {
                    for tid in self.clients[c].parked() {
                        let norm = |p: &Option<String>| -> String {
                            let p = p.clone().unwrap_or_default();
                            match p.find("/tmp/.tmp") {
                                Some(i) => format!("{}/tmp/.tmp#{:06}", &p[..i], self.tmpnames.get(&p[i + 5..]).cloned().unwrap_or(999_999)),
                                None => p,
                            }
                        };
                        let key = self.clients[c].threads[&tid].cur.as_ref().map(|s| format!("{}|{}|{}", s.name, norm(&s.path), norm(&s.path2))).unwrap_or_default();
                        v.push((c, tid, key));
                    }
                }
                // canonical order: by client, then by the call itself (thread ids are not stable across runs)
                v.sort_by(|a, b| a.0.cmp(&b.0).then(a.2.cmp(&b.2)));
                return Pump::Decide(v.into_iter().map(|x| (x.0, x.1)).collect());
            }
            let mut status = 0;
            if held {
                // a client waits at exit_group for its own background threads: poll instead of blocking
                let r = unsafe { libc::waitpid(-1, &mut status, libc::__WALL | libc::WNOHANG) };
                if r > 0 {
                    self.handle(r, status);
                } else {
                    self.held_polls += 1;
                    if self.held_polls > 400_000 {
                        self.hang = true;
                        return Pump::Hang;
                    }
                    std::thread::sleep(std::time::Duration::from_micros(25));
                }
                continue;
            }
            unsafe { libc::alarm(self.watchdog_s) };
            let r = unsafe { libc::waitpid(-1, &mut status, libc::__WALL) };
            unsafe { libc::alarm(0) };
            if r < 0 {
                let e = unsafe { *libc::__errno_location() };
                if e == libc::EINTR {
                    self.hang = true;
                    return Pump::Hang;
                }
                if e == libc::ECHILD {
                    for c in self.clients.iter_mut() {
                        if c.exit.is_none() {
                            c.exit = Some("lost".into());
                        }
                        for t in c.threads.values_mut() {
                            t.state = TState::Exited;
                        }
                    }
                    return Pump::Done;
                }
                self.error = Some(format!("waitpid errno {e}"));
                return Pump::Hang;
            }
            self.handle(r, status);
        }
    }
}
