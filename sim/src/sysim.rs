// System-call level simulation ("sysim"): clients run under ptrace; the simulator decides which
// filesystem system call executes next and with what outcome (real / errno / short / kill).
// Checks: C03 (atomic content), C04 (crash all-or-nothing), C07 (serialisability), C13 (errno), C15 (confinement).
use std::collections::BTreeMap;
use std::path::{Path, PathBuf};

use serde_json::{json, Value};

use crate::checks::CheckSpec;
use crate::disk;
use crate::fmt;
use crate::gen::*;
use crate::hash;
use crate::interp::{CState, Content, Ctx, Entry, Interp, Outcome, Pre, Viol};
use crate::prng::{hash_str, mix, Rng};
use crate::pt::*;
use crate::tracer::*;
use crate::wk::worker_bin;

const A_SYS: &[&str] = &[
    "each filesystem system call is atomic with respect to the others (POSIX/Linux for rename, mkdir, unlink, link, symlink, O_APPEND writes; reads are bounded by i_size so an appended record is seen whole or not at all)",
    "the kernel's tmpfs implements POSIX semantics; ptrace register patching is verified by a start-up self-test (injected errno / shortened write observed by the worker)",
    "crash = SIGKILL at a system-call boundary (optionally after a torn data write); durable state = every completed system call (process-kill model, no power loss)",
    "thread timing inside one async client is real; decisions are indexed by (client, ordinal of its filesystem system calls), which is stable because each API call awaits its filesystem work sequentially",
];

pub fn spec(id: &str) -> Option<CheckSpec> {
    let s = match id {
        "C03" => CheckSpec {
            id: "C03",
            engine: "sysim",
            level: "fault_enumeration",
            owns: &["content-integrity", "crash-read", "crash-atomicity", "fault-surface", "read-exact", "missing-content", "exists", "lookup"],
            runs: (120, 1500),
            rule: "a run = one write shape (entry point x size around the mmap threshold x chunking x declared size x flavour x cold/warm cache x address already present); inside it EVERY kill point (before each filesystem system call of the write) and, for each data-carrying call, torn lengths {0,1,len/2,len-1} (quick) / more (thorough) then kill are enumerated; evaluations counts simulated executions. After every executed system call every file named by it under content-v2 is re-hashed (I1); after the kill the whole content area is scanned and fresh readers of all flavours must see 'absent' or the exact bytes. Non-trivial = the kill landed after the temp file existed; distinct by hash of the normalised system-call trace. A third of the runs first make the publishing rename fail (EXDEV/EACCES/EIO/ENOSPC) and enumerate the kills of the error path; async victims run under a canonical-first, reverse or seeded-random schedule of their own pool threads (fixed per enumeration); some async victims drop one write future after a single poll and go on with other data; some shapes declare an integrity that names other data (nothing may appear under that address). 120 shapes in the quick tier",
            assumptions: A_SYS,
        },
        "C04" => CheckSpec {
            id: "C04",
            engine: "sysim",
            level: "fault_enumeration",
            owns: &["crash-atomicity", "lookup", "read-exact", "listing", "missing-content", "content-integrity", "removal", "write-ok", "commit-accept", "format", "fault-surface"],
            runs: (30, 600),
            rule: "a run = prior state of key K (absent / present / removed) + bystander key + victim (keyed write one-shot or streamed with metadata, or removal) x flavour; inside it every kill point and EVERY torn prefix length of the index append are enumerated; after the kill the simulator's decoder must find K exactly old or exactly new, all five reader flavours must agree, the bystander is unchanged, a visible new entry has complete content, and a continuation history (re-write, remove, write bystander) succeeds and is visible. Non-trivial = kill landed inside the victim call; distinct by trace hash. The victim's bucket is sometimes several KiB to tens of KiB long already; async victims run under a canonical-first, reverse or seeded-random schedule of their own pool threads, so that orders in which the index append overtakes the content rename are crash-tested too",
            assumptions: A_SYS,
        },
        "C13" => CheckSpec {
            id: "C13",
            engine: "sysim",
            level: "fault_enumeration",
            owns: &["fault-surface", "content-integrity", "lookup", "read-exact", "listing", "missing-content", "write-ok", "commit-accept", "retry", "crash-atomicity", "checked-read", "extract", "extract-leftover", "removal", "exists", "format"],
            runs: (140, 2500),
            rule: "a run = one victim call (write*, streamed write+commit, read*, Reader+check, copy*, hard_link*, remove*, remove_hash*, list, metadata*, link_to*) x flavour x cache shape (cold, warm, bucket > 8 KiB, content > one read buffer); inside it EVERY filesystem system call of the victim x each applicable errno (and short-write-then-ENOSPC for data writes) is injected one at a time; the call must return Err or a truthful Ok, never panic/hang; afterwards all other entries read back exactly, content area passes I1, the victim key is exactly old or new, and the same call repeated without faults succeeds. Non-trivial = the errno was actually delivered; distinct by trace hash. Also: faults that persist (every later call of that kind on that file fails), pure short writes, EINTR, victims whose commit is going to be rejected, fault pairs (thorough); in a fifth of the runs the SAME process makes the failed call again (state the failed attempt left inside the process is judged strictly); async victims run under first / last / seeded-random schedules of their own threads. 1 run in 12 is the full-disk family: the cache directory is a size-limited tmpfs of 128 KiB - 1 MiB mounted by the simulator (skipped, and counted in probe tiny_fs_unavailable, where mounting is not permitted) that really fills up while one traced client stores, removes and reads values; ENOSPC arrives wherever the kernel raises it, including the page fault of a mapped temp file (the client then dies of SIGBUS, which is a violation); a failed call must leave its key exactly old or new. Also: short reads; short gathered writes; for read / Reader victims the content file is truncated by somebody else just before each call of the victim that names it (the victim must fail or be exact, and survive)",
            assumptions: A_SYS,
        },
        "C15" => CheckSpec {
            id: "C15",
            engine: "sysim",
            level: "exploration",
            owns: &["confinement", "readonly-mutates", "key-opaque", "lookup", "read-exact", "listing", "linkto"],
            runs: (1500, 40000),
            rule: "a run = a seeded program over the whole operation table with hostile/confusable keys, executed by one traced client whose TMPDIR, HOME and cwd point at sentinel directories; every mutating system call (open with write/create flags, mkdir, rename, unlink, link, symlink, truncate, fallocate, write-family, writable shared mmap, chmod/chown/utimens/xattr, copy_file_range, FICLONE) must target the cache directory or the declared destination; read-only API calls issue no mutating call; index paths touched for key k are exactly index-v5/sha1(k); sentinel trees are byte-identical afterwards. Half the runs inject one errno to reach error paths. Non-trivial = >= 1 mutating system call observed; distinct by trace hash. The cache path is spelled plainly, with a trailing slash, through ./ or ../, or has a directory name that is not valid UTF-8 (traces are byte-exact)",
            assumptions: A_SYS,
        },
        "C07" => CheckSpec {
            id: "C07",
            engine: "sysim",
            level: "exploration",
            owns: &["serializability", "content-integrity", "partial-record", "no-panic"],
            runs: (6000, 150000),
            rule: "a run = 2-3 client processes (flavours drawn) each issuing one operation chosen to collide (same key / same content / reader of the key being written / remover of content being written) on a cold or warm cache; at every step the seeded scheduler (uniform random, PCT-style priorities, or enumerated for small cases) picks which parked client's filesystem system call executes; no faults. Accept iff some permutation of the operations applied to the reference model explains every observed result and the final cache state; I1 and 'every bucket line is a whole record' hold after every step. Non-trivial = >= 1 context switch between clients inside overlapping calls; distinct interleavings counted by hash of the (client, syscall) sequence. 1 run in 16 gives the shared key a long history (bucket of tens to hundreds of KiB, length varied) and enumerates, for every point of one client's call sequence, the other client running from start to end; a quarter of the option-carrying writers append records larger than 5 / 9 / 20 / 70 KB",
            assumptions: A_SYS,
        },
        _ => return None,
    };
    Some(s)
}

pub fn exhaustive_count(_id: &str, _tier: &str) -> u64 {
    0
}

pub fn stubs(id: &str) -> Vec<String> {
    if id == "C18" {
        vec!["ioctl(FICLONE) emulated as an in-kernel full copy".into()]
    } else {
        Vec::new()
    }
}

pub fn nontrivial(_id: &str, _sc: &Value, out: &Outcome) -> bool {
    !out.sub_hashes.is_empty()
}

// ------------------------------------------------------------------------------------------ one simulated execution
#[derive(Default)]
pub struct Sub {
    pub viols: Vec<Viol>,
    pub trace: Vec<String>, // normalised event log
    pub events: Vec<Event>,
    pub hash: u64,
    pub nontrivial: bool,
    pub steps: u64,
    pub faults: BTreeMap<String, u64>,
    pub probes: BTreeMap<String, u64>,
    pub harness: Option<String>,
    pub results: Vec<Vec<Option<Value>>>,
    pub victim_events: Vec<usize>, // indices into events of client 0's victim op
    pub inter_hash: u64,
    pub decisions: Vec<usize>,
    pub switches: u64,
}

fn norm_path(p: &str, root: &str, tmpnames: &mut BTreeMap<String, usize>) -> String {
    let mut s = p.replace(root, "$R");
    // tempfile names
    if let Some(i) = s.find("/tmp/.tmp") {
        let name = s[i + 5..].to_string();
        let n = tmpnames.len();
        let id = *tmpnames.entry(name.clone()).or_insert(n);
        s = format!("{}/tmp/.tmp#{}", &s[..i], id);
    }
    s
}

fn fault_for(plan: &Value, client: usize, ord: usize) -> Option<Action> {
    for f in plan["faults"].as_array()? {
        if f["client"].as_u64().unwrap_or(0) as usize == client && f["at"].as_u64() == Some(ord as u64) {
            return Some(Action::from_json(&f["action"]));
        }
    }
    None
}

struct Sched {
    policy: String,
    rng: Rng,
    explicit: Vec<usize>,
    pos: usize,
    prio: Vec<u64>,
    change_at: Vec<usize>,
    run_len: usize,
}

impl Sched {
    fn new(plan: &Value, nclients: usize) -> Sched {
        let s = &plan["schedule"];
        let seed = s["seed"].as_u64().unwrap_or(1);
        let mut rng = Rng::new(seed);
        let policy = s["policy"].as_str().unwrap_or("first").to_string();
        let mut prio: Vec<u64> = (0..nclients as u64).collect();
        rng.shuffle(&mut prio);
        let d = s["depth"].as_u64().unwrap_or(2) as usize;
        let horizon = s["horizon"].as_u64().unwrap_or(60);
        let mut change_at: Vec<usize> = (0..d).map(|_| rng.below(horizon) as usize).collect();
        let mut explicit: Vec<usize> = s["decisions"].as_array().map(|a| a.iter().map(|x| x.as_u64().unwrap_or(0) as usize).collect()).unwrap_or_default();
        if policy == "switch" {
            explicit = s["order"].as_array().map(|a| a.iter().map(|x| x.as_u64().unwrap_or(0) as usize).collect()).unwrap_or_default();
            change_at = s["points"].as_array().map(|a| a.iter().map(|x| x.as_u64().unwrap_or(0) as usize).collect()).unwrap_or_default();
        }
        Sched { policy, rng, explicit, pos: 0, prio, change_at, run_len: 0 }
    }
    /// choose among parked (client, tid), sorted; returns index
    fn choose(&mut self, parked: &[(usize, i32)], step: usize) -> usize {
        if parked.len() == 1 && self.policy != "switch" {
            // still consume an explicit decision so replay lists stay aligned
            if self.policy == "explicit" {
                self.pos += 1;
            }
            return 0;
        }
        match self.policy.as_str() {
            "explicit" => {
                let want = self.explicit.get(self.pos).cloned();
                self.pos += 1;
                match want.and_then(|w| parked.iter().position(|p| p.0 == w)) {
                    Some(i) => i,
                    None => 0,
                }
            }
            "switch" => {
                // run order[k] for points[k] of its calls, then move on to the next preferred client
                let cur = self.explicit.get(self.pos).cloned().unwrap_or(0);
                let want = if let Some(i) = parked.iter().position(|p| p.0 == cur) { i } else { 0 };
                let c = parked[want].0;
                if c == cur {
                    self.run_len += 1;
                    let limit = self.change_at.get(self.pos).cloned().unwrap_or(usize::MAX);
                    if self.run_len >= limit && self.pos + 1 < self.explicit.len() {
                        self.pos += 1;
                        self.run_len = 0;
                    }
                }
                want
            }
            "random" => self.rng.idx(parked.len()),
            // the reverse of the canonical order: among the parked calls of one client's threads, the other end
            "last" => parked.len() - 1,
            "pct" => {
                if self.change_at.contains(&step) {
                    // demote the currently highest-priority client
                    if let Some((i, _)) = self.prio.iter().enumerate().max_by_key(|(_, p)| **p) {
                        let min = self.prio.iter().min().cloned().unwrap_or(0);
                        self.prio[i] = min.saturating_sub(1);
                    }
                }
                let mut best = 0;
                for (i, p) in parked.iter().enumerate() {
                    if self.prio[p.0] > self.prio[parked[best].0] {
                        best = i;
                    }
                }
                best
            }
            _ => 0,
        }
    }
}

pub struct Exec<'a> {
    pub it: Interp<'a>,
    pub sc: &'a Value,
    pub pres: Vec<Vec<Pre>>,
    pub sub: Sub,
    pub ctl: PathBuf,
}

/// Execute prelude + traced phase of a scenario under an explicit plan. The returned Exec still owns
/// the interpreter (model + cache directory) so that the check-specific oracle can continue.
pub fn exec_traced<'a>(ctx: &'a mut Ctx, sc: &'a Value, plan: &Value, tag: &str) -> Exec<'a> {
    let workers_dir = ctx.workers_dir.clone();
    let ctl = ctx.scratch.join(format!("ctl-{tag}"));
    let _ = std::fs::remove_dir_all(&ctl);
    std::fs::create_dir_all(&ctl).ok();
    let mut it = Interp::new(ctx, sc, tag);
    it.begin();
    let fault_on_unlink_or_kill = plan["faults"].as_array().map(|a| a.iter().any(|f| matches!(f["action"]["a"].as_str(), Some("kill_entry") | Some("kill_exit") | Some("short_kill")))).unwrap_or(false);
    it.allow_tmp_leftovers = !sc["strict_tmp"].as_bool().unwrap_or(false) || fault_on_unlink_or_kill;
    it.strict_format = false;
    let prelude = sc["prelude"].as_array().cloned().unwrap_or_default();
    it.run_steps(&prelude, 0);
    it.deferred = true;
    let mut sub = Sub::default();
    if !it.out.viols.is_empty() {
        *sub.probes.entry("prelude_violations".into()).or_insert(0) += it.out.viols.len() as u64;
    }
    // sentinel directories (C15)
    let root = it.root.clone();
    for d in ["sentinel-tmp", "sentinel-home", "sentinel-cwd"] {
        std::fs::create_dir_all(root.join(d)).ok();
        std::fs::write(root.join(d).join("keep"), b"sentinel").ok();
    }
    // programs
    let clients = sc["clients"].as_array().cloned().unwrap_or_default();
    let mut pres: Vec<Vec<Pre>> = Vec::new();
    let mut tracer = Tracer::new(&root);
    tracer.emulate_ficlone = sc["emulate_ficlone"].as_bool().unwrap_or(false);
    let clock = it.clock;
    for (ci, c) in clients.iter().enumerate() {
        let bin = c["bin"].as_str().unwrap_or("sync");
        let mut lines: Vec<String> = Vec::new();
        lines.push(match clock {
            Some(ms) => json!({"op":"set_clock","ms":ms.to_string()}).to_string(),
            None => json!({"op":"ping"}).to_string(),
        });
        let mut p = Vec::new();
        for st in c["steps"].as_array().cloned().unwrap_or_default() {
            let mut st2 = st.clone();
            st2["bin"] = json!(bin);
            let (_b, op, pre) = it.prepare(&st2);
            lines.push(op.to_string());
            p.push(pre);
        }
        pres.push(p);
        let prog = ctl.join(format!("c{ci}.prog"));
        let out = ctl.join(format!("c{ci}.out"));
        std::fs::write(&prog, lines.join("\n") + "\n").ok();
        let env = vec![
            ("ASYNC_STD_THREAD_COUNT".to_string(), "2".to_string()),
            ("TMPDIR".to_string(), root.join("sentinel-tmp").display().to_string()),
            ("HOME".to_string(), root.join("sentinel-home").display().to_string()),
            ("PATH".to_string(), "/usr/bin:/bin".to_string()),
            ("CV_OP_TIMEOUT_S".to_string(), "900".to_string()),
        ];
        if let Err(e) = tracer.spawn(&worker_bin(&workers_dir, bin), &prog, &out, &root.join("sentinel-cwd"), &env) {
            sub.harness = Some(format!("cannot start traced worker: {e}"));
            return Exec { it, sc, pres, sub, ctl };
        }
    }
    let root_s = normalize(&crate::penc::penc(&root));
    let cache_pb = it.cache.clone();
    let cache_s = normalize(&crate::penc::penc(&cache_pb));
    let mut sched = Sched::new(plan, clients.len());
    let mut checked_upto = 0usize;
    let mut last_client: Option<usize> = None;
    let mut faults_delivered = 0u64;
    loop {
        let p = tracer.pump();
        // I1 (incremental): every file under content-v2 named by a call that just executed hashes to its path;
        // and no bucket line is a partial record in fault-free runs
        while checked_upto < tracer.events.len() && tracer.events[checked_upto].ret != i64::MIN {
            let ev = tracer.events[checked_upto].clone();
            checked_upto += 1;
            if !ev.sys.mutating || ev.ret == -9999 {
                continue;
            }
            for p in [&ev.sys.path, &ev.sys.path2].into_iter().flatten() {
                if let Some(rel) = p.strip_prefix(&format!("{}/", cache_s)) {
                    if rel.starts_with("content-v2/") && rel.split('/').count() == 5 {
                        let md = std::fs::symlink_metadata(cache_pb.join(rel));
                        if let Ok(md) = md {
                            if md.is_file() {
                                let damaged = matches!(it.m.content.get(rel), Some(c) if c.state == CState::Damaged);
                                let cf = disk::check_content_file(&cache_pb, rel, disk::FileKind::Regular);
                                if !cf.digest_ok && !damaged {
                                    sub.viols.push(Viol { class: "content-integrity".into(), sig: format!("content-integrity/visible-after/{}", ev.sys.name), msg: format!("after {} by client {} (step {}), content file {} ({} B) does not hold the data of its address", ev.sys.name, ev.client, ev.step, rel, cf.len), step: ev.step, scenario: None });
                                }
                            }
                        }
                    }
                    if ev.sys.nr == SYS_MMAP && rel.starts_with("content-v2/") {
                        sub.viols.push(Viol { class: "content-integrity".into(), sig: "content-integrity/content-file-mapped-writable".into(), msg: format!("content file {} is mapped shared+writable: partial data would be visible under its address", rel), step: ev.step, scenario: None });
                    }
                    if rel.starts_with("index-v5/") && ev.sys.data_write && sc["check_partial_records"].as_bool().unwrap_or(false) && ev.ret >= 0 {
                        // C07: no reader may ever see a partial record: after every write the bucket consists of whole records
                        if let Ok(b) = std::fs::read(cache_pb.join(rel)) {
                            let lines = fmt::parse_bucket(&b);
                            if lines.iter().skip(1).any(|l| l.rec.is_none()) || (b.first() != Some(&b'\n') && !b.is_empty()) {
                                sub.viols.push(Viol { class: "partial-record".into(), sig: format!("partial-record/after-{}", ev.sys.name), msg: format!("after a write by client {} the bucket {} contains a line that is not a whole record", ev.client, rel), step: ev.step, scenario: None });
                            }
                        }
                    }
                }
            }
        }
        match p {
            Pump::Decide(parked) => {
                let i = sched.choose(&parked, tracer.step);
                let (c, tid) = parked[i];
                if let Some(lc) = last_client {
                    if lc != c && parked.iter().any(|p| p.0 == lc) {
                        sub.switches += 1;
                    }
                }
                last_client = Some(c);
                sub.decisions.push(c);
                let ord = tracer.events.iter().filter(|e| e.client == c).count();
                let action = fault_for(plan, c, ord).unwrap_or(Action::Exec);
                if action != Action::Exec {
                    faults_delivered += 1;
                    let name = tracer.clients[c].threads[&tid].cur.as_ref().map(|s| s.name).unwrap_or("?");
                    let kind = match &action {
                        Action::Errno(e) => format!("errno.{}@{}", errno_name(*e), name),
                        Action::ErrnoPersist(e) => format!("errno_persistent.{}@{}", errno_name(*e), name),
                        Action::TruncBefore(_) => format!("file_truncated_under_call@{}", name),
                        Action::Short(_) => format!("short_write@{}", name),
                        Action::ShortThenErr(_, e) => format!("short_then_{}@{}", errno_name(*e), name),
                        Action::KillEntry | Action::KillExit => "kill".to_string(),
                        Action::ShortKill(_) => "torn_kill".to_string(),
                        Action::Exec => String::new(),
                    };
                    *sub.faults.entry(kind).or_insert(0) += 1;
                }
                tracer.grant(c, tid, action);
                if tracer.step > 60_000 {
                    tracer.hang = true;
                    tracer.kill_all();
                    break;
                }
            }
            Pump::Done => break,
            Pump::Hang => {
                tracer.kill_all();
                break;
            }
        }
    }
    if tracer.quiesce_timeouts > 0 {
        *sub.probes.entry("quiescence_timeouts".into()).or_insert(0) += tracer.quiesce_timeouts;
    }
    if tracer.ficlone_emulated > 0 {
        *sub.faults.entry("ficlone_emulated".into()).or_insert(0) += tracer.ficlone_emulated;
    }
    if let Some(e) = &tracer.error {
        sub.harness = Some(e.clone());
    }
    // results from the out files
    for (ci, c) in clients.iter().enumerate() {
        let n = c["steps"].as_array().map(|a| a.len()).unwrap_or(0);
        let mut rs: Vec<Option<Value>> = vec![None; n];
        let txt = std::fs::read_to_string(ctl.join(format!("c{ci}.out"))).unwrap_or_default();
        for l in txt.lines() {
            if let Some(rest) = l.strip_prefix("E ") {
                if let Some((i, j)) = rest.split_once(' ') {
                    if let (Ok(i), Ok(v)) = (i.parse::<usize>(), serde_json::from_str::<Value>(j)) {
                        if i >= 1 && i - 1 < n {
                            rs[i - 1] = Some(v);
                        }
                    }
                }
            }
        }
        sub.results.push(rs);
    }
    // normalised trace + hashes
    let mut tmpnames = BTreeMap::new();
    let mut h = 0xcbf29ce484222325u64;
    let mut ih = 0x1234567u64;
    for ev in &tracer.events {
        let p1 = ev.sys.path.as_ref().map(|p| norm_path(p, &root_s, &mut tmpnames)).unwrap_or_default();
        let p2 = ev.sys.path2.as_ref().map(|p| norm_path(p, &root_s, &mut tmpnames)).unwrap_or_default();
        let line = format!("c{} #{} op{:?} {} {} {} len={:?} -> {} [{}]", ev.client, ev.ord, ev.op, ev.sys.name, p1, p2, ev.sys.len, if ev.ret == -9999 { "killed".to_string() } else if ev.ret >= 0 && matches!(ev.sys.nr, SYS_MMAP | SYS_OPEN | SYS_OPENAT | SYS_OPENAT2 | SYS_CREAT) { "ok".to_string() } else { ev.ret.to_string() }, ev.action.label());
        h = mix(h, hash_str(&line));
        ih = mix(ih, mix(ev.client as u64, hash_str(ev.sys.name)));
        sub.trace.push(line);
    }
    sub.hash = h;
    sub.inter_hash = ih;
    sub.steps = tracer.events.len() as u64 + tracer.passthrough;
    // client status
    for c in &tracer.clients {
        let st = c.exit.clone().unwrap_or_default();
        if tracer.hang && !c.killed {
            *sub.probes.entry("watchdog_fired".into()).or_insert(0) += 1;
        }
        if st.starts_with("signal") && !c.killed {
            sub.viols.push(Viol { class: "fault-surface".into(), sig: format!("fault-surface/worker-died/{}", st), msg: format!("client {} terminated abnormally: {}", c.idx, st), step: 0, scenario: None });
        }
    }
    if tracer.hang {
        let op = tracer.clients.iter().filter_map(|c| c.cur_op).next();
        let opname = op.and_then(|i| sc["clients"][0]["steps"].get(i.saturating_sub(1))).and_then(|s| s["op"].as_str()).unwrap_or("?").to_string();
        sub.viols.push(Viol { class: "fault-surface".into(), sig: format!("fault-surface/hang/{}", opname), msg: format!("a client made no progress within the watchdog (or exceeded the step budget) during {}", opname), step: 0, scenario: None });
    }
    // C15 bookkeeping: every mutating call, relevant or not
    sub.events = tracer.events.clone();
    let muts = tracer.all_mutations.clone();
    c15_invariants(sc, &root_s, &cache_s, &muts, &mut sub);
    let _ = faults_delivered;
    Exec { it, sc, pres, sub, ctl }
}

/// I2 / I3 / key opaqueness over the complete list of mutating calls.
fn c15_invariants(sc: &Value, root: &str, cache_s: &str, muts: &[(usize, Option<usize>, Sys, i64)], sub: &mut Sub) {
    let cache = cache_s.to_string();
    let clients = sc["clients"].as_array().cloned().unwrap_or_default();
    let mut n_mut = 0u64;
    for (c, op, sys, _) in muts {
        let paths: Vec<&String> = [&sys.path, if sys.nr == SYS_SYMLINK || sys.nr == SYS_SYMLINKAT { &None } else { &sys.path2 }].into_iter().flatten().collect();
        // rename/link: both ends are mutated/created; copy_file_range & FICLONE: only the destination (path)
        let check: Vec<&String> = match sys.nr {
            SYS_COPY_FILE_RANGE | SYS_SENDFILE | SYS_IOCTL => sys.path.iter().collect(),
            SYS_LINK | SYS_LINKAT => sys.path2.iter().collect(),
            _ => paths,
        };
        let st = op.and_then(|i| clients.get(*c).and_then(|cl| cl["steps"].get(i.wrapping_sub(1))));
        let dest = st.and_then(|s| s["to"].as_str()).map(|t| normalize(&t.replace("$O", &format!("{}/out", root)).replace("$C", &cache).replace("$R", root)));
        let opname = st.and_then(|s| s["op"].as_str()).unwrap_or("startup");
        for p in check {
            // the worker's own control files are not the library's doing
            if p.contains("/ctl-") || p == "/dev/null" || p == "/dev/tty" || p.starts_with("/proc/") {
                continue;
            }
            n_mut += 1;
            let inside = p == &cache || p.starts_with(&format!("{}/", cache));
            let is_dest = dest.as_ref().map(|d| d == p).unwrap_or(false);
            if !inside && !is_dest {
                sub.viols.push(Viol { class: "confinement".into(), sig: format!("confinement/{}/{}", opname, sys.name), msg: format!("{} issued {} on {} which is outside the cache directory and not the declared destination", opname, sys.name, p.replace(root, "$R")), step: 0, scenario: None });
            }
            let readonly = matches!(opname, "read" | "reader" | "metadata" | "find" | "exists" | "list" | "ls");
            // background cleanup of an abandoned async writer (temp-file unlink on a pool thread) can land in the
            // window of a later call: attribute it to the writer, not to the read-only call in progress
            let late_cleanup = (sys.nr == SYS_UNLINK || sys.nr == SYS_UNLINKAT)
                && p.starts_with(&format!("{}/tmp/.tmp", cache))
                && op.map(|i| clients.get(*c).map(|cl| cl["steps"].as_array().map(|a| a.iter().take(i.saturating_sub(1)).any(|s| s["op"] == "write" && s["mode"] == "async")).unwrap_or(false)).unwrap_or(false)).unwrap_or(false);
            if readonly && op.is_some() && !late_cleanup {
                sub.viols.push(Viol { class: "readonly-mutates".into(), sig: format!("readonly-mutates/{}/{}", opname, sys.name), msg: format!("read-only call {} issued the mutating system call {} on {}", opname, sys.name, p.replace(root, "$R")), step: 0, scenario: None });
            }
            // key opaqueness: index paths touched during a keyed op are exactly the bucket of sha1(key) (or its ancestors)
            if inside {
                if let Some(rel) = p.strip_prefix(&format!("{}/", cache)) {
                    if rel.starts_with("index-v5/") && rel.split('/').count() == 4 {
                        if let Some(k) = st.and_then(|s| s.get("key")) {
                            let key = if let Some(i) = k.as_u64() { sc["keys"][i as usize].as_str().unwrap_or("").to_string() } else { k.as_str().unwrap_or("").to_string() };
                            // (a cancelled future's remaining system calls may run on pool threads during later calls)
                            let cancelled_earlier = op.map(|i| clients.get(*c).map(|cl| cl["steps"].as_array().map(|a| a.iter().take(i.saturating_sub(1)).any(|s| s.get("cancel_polls").is_some() && s.get("key").map(|k2| { let kk = if let Some(j) = k2.as_u64() { sc["keys"][j as usize].as_str().unwrap_or("").to_string() } else { k2.as_str().unwrap_or("").to_string() }; hash::bucket_rel(&kk) == rel }).unwrap_or(false))).unwrap_or(false)).unwrap_or(false)).unwrap_or(false);
                            if rel != hash::bucket_rel(&key) && opname != "clear" && !cancelled_earlier {
                                sub.viols.push(Viol { class: "key-opaque".into(), sig: format!("key-opaque/{}", opname), msg: format!("{} for key {:?} touched index path {} instead of {}", opname, key, rel, hash::bucket_rel(&key)), step: 0, scenario: None });
                            }
                        }
                    }
                }
            }
        }
    }
    *sub.probes.entry("mutating_calls_seen".into()).or_insert(0) += n_mut;
}

fn mk_viol(class: &str, sig: String, msg: String) -> Viol {
    Viol { class: class.to_string(), sig, msg, step: 0, scenario: None }
}

/// add content files present on disk (and hashing to their address) to the model; content that vanished is
/// accepted only when the interrupted call was itself a deletion
fn sync_content_from_disk(it: &mut Interp, deletion: bool) {
    let d = disk::scan(&it.cache);
    for cf in &d.content {
        if (cf.kind == disk::FileKind::Regular || cf.kind == disk::FileKind::Symlink) && cf.well_placed && cf.digest_ok {
            let known = matches!(it.m.content.get(&cf.rel), Some(c) if c.state == CState::Pristine);
            if !known {
                if let Ok(b) = std::fs::read(it.cache.join(&cf.rel)) {
                    it.m.content.insert(cf.rel.clone(), Content { orig: b, state: CState::Pristine, is_link: cf.kind == disk::FileKind::Symlink });
                }
            }
        }
    }
    let rels: Vec<String> = it.m.content.keys().cloned().collect();
    for rel in rels {
        if deletion && !d.content.iter().any(|c| c.rel == rel) {
            if let Some(c) = it.m.content.get_mut(&rel) {
                if c.state == CState::Pristine {
                    c.state = CState::Missing;
                }
            }
        }
    }
}

/// the entry the victim op would create if it completed (None = tombstone / not keyed)
fn would_be(it: &mut Interp, st: &Value, pre: &Pre) -> (Option<String>, Option<Option<Entry>>) {
    let key = it.key(st);
    let key = match key {
        Some(k) => k,
        None => return (None, None),
    };
    let saved_m = it.m.clone();
    let saved_v = it.out.viols.len();
    let saved_clock = it.clock;
    let op = st["op"].as_str().unwrap_or("");
    let synth = match op {
        "write" | "link_to" | "index_insert" => json!({"r":"ok","sri":"?"}),
        _ => json!({"r":"ok"}),
    };
    it.judge(st, &synth, pre.clone());
    let newv = it.m.keys.get(&key).cloned();
    it.m = saved_m;
    it.out.viols.truncate(saved_v);
    it.clock = saved_clock;
    (Some(key), newv)
}

/// After a kill or an injected error: the victim key is exactly old or exactly new per the simulator's decoder.
fn settle_victim(it: &mut Interp, st: &Value, pre: &Pre, sub: &mut Sub, how: &str) {
    if it.lenient {
        return; // no model is maintained in such runs
    }
    let opname = st["op"].as_str().unwrap_or("?").to_string();
    let (key, newv) = would_be(it, st, pre);
    let deletion = matches!(opname.as_str(), "remove_hash" | "clear") || (opname == "remove_opts" && st["fully"].as_bool() == Some(true));
    sync_content_from_disk(it, deletion);
    if let (Some(k), Some(newv)) = (key, newv) {
        let old = it.m.keys.get(&k).cloned();
        let d = disk::scan(&it.cache);
        let lines = d.bucket_lines(&k);
        let eff = fmt::effective(&lines, &k).and_then(|r| Entry::from_rec(&r));
        let bucket_exists = d.buckets.contains_key(&hash::bucket_rel(&k));
        let old_e = old.clone().flatten();
        if eff == old_e {
            *sub.probes.entry("victim_key_old".into()).or_insert(0) += 1;
            // remove_fully may have deleted the content before dying: entry still there, content gone (documented multi-step)
        } else if eff == newv {
            *sub.probes.entry("victim_key_new".into()).or_insert(0) += 1;
            match &newv {
                Some(e) => {
                    it.m.keys.insert(k.clone(), Some(e.clone()));
                    it.m.inserted.push(e.clone());
                    // content-before-index: a visible new entry has complete content
                    let present = hash::content_rel(&e.sri).map(|rel| d.content.iter().any(|c| c.rel == rel && c.digest_ok)).unwrap_or(false);
                    if !present && opname == "write" {
                        sub.viols.push(mk_viol("crash-atomicity", format!("crash-atomicity/{}/new-entry-without-content/{}", opname, how), format!("after {} the new entry for {:?} is visible but its content {} is not completely stored", how, k, e.sri)));
                    }
                }
                None => {
                    if opname == "remove_opts" && st["fully"].as_bool() == Some(true) && !bucket_exists {
                        it.m.keys.remove(&k);
                    } else {
                        it.m.keys.insert(k.clone(), None);
                    }
                }
            }
        } else {
            sub.viols.push(mk_viol("crash-atomicity", format!("crash-atomicity/{}/neither-old-nor-new/{}", opname, how), format!("after {} key {:?} decodes to {:?}, which is neither the previous state {:?} nor the new one {:?}", how, k, eff, old_e, newv)));
            it.m.keys.insert(k.clone(), eff);
        }
        if lines.iter().any(|l| l.rec.is_none() && l.end > l.start) {
            *sub.probes.entry("torn_tail_left".into()).or_insert(0) += 1;
            if lines.iter().any(|l| !l.utf8) {
                *sub.probes.entry("torn_inside_utf8_char".into()).or_insert(0) += 1;
            }
        }
    }
    it.m.index_faulted = true;
}

fn take_viols(it: &mut Interp, sub: &mut Sub) {
    let vs: Vec<Viol> = it.out.viols.drain(..).collect();
    sub.viols.extend(vs);
}

fn finish_exec(mut ex: Exec, sc_for_replay: &Value) -> Sub {
    // end-of-run disk checks (I1 full scan, decode == model) through the interpreter
    let ctl = ex.ctl.clone();
    let mut sub = std::mem::take(&mut ex.sub);
    for (k, v) in ex.it.out.faults.clone() {
        *sub.faults.entry(k).or_insert(0) += v;
    }
    for (k, v) in ex.it.out.probes.clone() {
        *sub.probes.entry(k).or_insert(0) += v;
    }
    sub.steps += ex.it.out.steps;
    let harness = ex.it.out.harness.clone();
    let out = ex.it.finish();
    sub.viols.extend(out.viols);
    if sub.harness.is_none() {
        sub.harness = harness.or(out.harness);
    }
    let _ = std::fs::remove_dir_all(&ctl);
    for v in sub.viols.iter_mut() {
        if v.scenario.is_none() {
            v.scenario = Some(sc_for_replay.clone());
        }
    }
    sub
}

/// Run one explicit plan (census when it has no faults) and apply the oracle of the scenario's check.
pub fn run_plan(ctx: &mut Ctx, sc: &Value, plan: &Value, tag: &str) -> Sub {
    let mut replay = sc.clone();
    replay["plan"] = json!({"kind":"single","faults":plan["faults"],"schedule":plan["schedule"]});
    let mut ex = exec_traced(ctx, sc, plan, tag);
    if ex.sub.harness.is_some() {
        return finish_exec(ex, &replay);
    }
    let oracle = sc["oracle"].as_str().unwrap_or("strict").to_string();
    // a content file that was truncated under a call is damaged from then on (the environment's doing)
    {
        let cache_s = normalize(&crate::penc::penc(&ex.it.cache));
        let rels: Vec<String> = ex.sub.events.iter().filter(|e| matches!(e.action, Action::TruncBefore(_))).filter_map(|e| e.sys.path.as_ref().and_then(|p| p.strip_prefix(&format!("{}/", cache_s)).map(|r| r.to_string()))).collect();
        for rel in rels {
            if let Some(c) = ex.it.m.content.get_mut(&rel) {
                c.state = CState::Damaged;
            }
        }
    }
    let clients = sc["clients"].as_array().cloned().unwrap_or_default();
    let has_fault = plan["faults"].as_array().map(|a| !a.is_empty()).unwrap_or(false);
    let fault_client = plan["faults"][0]["client"].as_u64().unwrap_or(0) as usize;
    // record explicit decisions for exact replay of schedules
    if clients.len() > 1 {
        replay["plan"]["schedule"] = json!({"policy":"explicit","decisions":ex.sub.decisions});
    }
    if has_fault && sc["lenient_after_fault"].as_bool().unwrap_or(false) {
        // the program continues after the injected error on a state the model cannot know exactly:
        // only the trace invariants (and panics/hangs) are judged in such runs
        ex.it.lenient = true;
    }
    if oracle == "serial" {
        judge_serial(&mut ex, &clients);
    } else {
        // which op of the faulted client received the fault (by events)
        let faulted_op: Option<usize> = ex.sub.events.iter().find(|e| e.action != Action::Exec && e.client == fault_client).and_then(|e| e.op).map(|i| i.saturating_sub(1));
        let killed = ex.sub.events.iter().any(|e| matches!(e.action, Action::KillEntry | Action::KillExit | Action::ShortKill(_)));
        for (ci, c) in clients.iter().enumerate() {
            let steps = c["steps"].as_array().cloned().unwrap_or_default();
            for (si, st) in steps.iter().enumerate() {
                let mut st2 = st.clone();
                st2["bin"] = c["bin"].clone();
                let pre = ex.pres[ci][si].clone();
                let r = ex.sub.results[ci][si].clone();
                let is_victim = has_fault && ci == fault_client && Some(si) == faulted_op;
                match r {
                    Some(r) if r["r"] == "cancelled" => {
                        // the caller dropped the future of the call at some await point: like a kill of that one call,
                        // the key is exactly old or new, and the rest of the program goes on
                        *ex.sub.faults.entry("future_cancelled".into()).or_insert(0) += 1;
                        settle_victim(&mut ex.it, &st2, &pre, &mut ex.sub, "a cancelled future");
                        ex.it.m.index_faulted = false;
                    }
                    Some(r) if oracle == "natural" && r["r"] == "err" && (matches!(r["os"].as_i64(), Some(28) | Some(122)) || r["kind"] == "StorageFull" || r["kind"] == "QuotaExceeded" || r["msg"].as_str().map(|m| m.to_ascii_lowercase().contains("no space left")).unwrap_or(false)) => {
                        // the filesystem is really full: the call may fail with that error; the key is exactly old or
                        // new, everything else is untouched (judged by the audits that follow)
                        *ex.sub.faults.entry("disk_full_natural".into()).or_insert(0) += 1;
                        settle_victim(&mut ex.it, &st2, &pre, &mut ex.sub, "a full disk");
                        ex.it.m.index_faulted = false;
                    }
                    Some(r) if !is_victim => {
                        ex.it.judge(&st2, &r, pre);
                    }
                    Some(r) => {
                        // a fault was delivered inside this call
                        let opname = st2["op"].as_str().unwrap_or("?").to_string();
                        let fl = format!("{}-{}", st2["bin"].as_str().unwrap_or("?"), st2["mode"].as_str().unwrap_or("sync"));
                        let fault_label = ex.sub.events.iter().find(|e| e.action != Action::Exec).map(|e| format!("{}@{}", e.action.label(), e.sys.name)).unwrap_or_default();
                        match r["r"].as_str().unwrap_or("") {
                            "ok" => {
                                // truthful success: judged strictly
                                let lenient_ok = matches!(opname.as_str(), "exists" | "list" | "ls") ;
                                if lenient_ok {
                                    // exists() has no error channel; list reports errors as items
                                    if opname != "exists" && r["errs"].as_array().map(|a| a.is_empty()).unwrap_or(true) {
                                        ex.it.judge(&st2, &r, pre);
                                    }
                                } else {
                                    ex.it.judge(&st2, &r, pre.clone());
                                    // the fault may have been absorbed legitimately (fallback, retry): fine if strict judging passed
                                }
                                *ex.sub.probes.entry("fault_absorbed_ok".into()).or_insert(0) += 1;
                            }
                            "err" => {
                                *ex.sub.probes.entry("fault_surfaced_err".into()).or_insert(0) += 1;
                                settle_victim(&mut ex.it, &st2, &pre, &mut ex.sub, "an injected error");
                                if matches!(opname.as_str(), "copy" | "copy_unchecked" | "hard_link" | "hard_link_unchecked" | "reflink" | "reflink_unchecked") {
                                    // a failed extraction may leave a partial destination file (the destination is the caller's);
                                    // nothing to assert about it beyond confinement
                                }
                            }
                            other => {
                                ex.sub.viols.push(mk_viol("fault-surface", format!("fault-surface/{}/{}/{}/{}", opname, fl, other, fault_label), format!("{} with {} injected did not return: {}", opname, fault_label, r)));
                                settle_victim(&mut ex.it, &st2, &pre, &mut ex.sub, "an injected error");
                            }
                        }
                        if r.get("bg_panic").is_some() {
                            ex.sub.viols.push(mk_viol("fault-surface", format!("fault-surface/{}/{}/bgpanic/{}", opname, fl, fault_label), format!("{} with {} injected: a background thread panicked: {}", opname, fault_label, r["bg_panic"])));
                        }
                    }
                    None => {
                        // no result: the client was killed (or died) during this op
                        if killed || ex.sub.viols.iter().any(|v| v.class == "fault-surface") {
                            settle_victim(&mut ex.it, &st2, &pre, &mut ex.sub, "a kill");
                        } else if !has_fault {
                            ex.sub.viols.push(mk_viol("fault-surface", "fault-surface/no-result".into(), format!("client {} produced no result for step {} ({})", ci, si, st2["op"])));
                        } else {
                            settle_victim(&mut ex.it, &st2, &pre, &mut ex.sub, "a fault");
                        }
                        break;
                    }
                }
            }
        }
    }
    if ex.sub.events.iter().any(|e| e.action != Action::Exec && matches!(e.sys.nr, SYS_UNLINK | SYS_UNLINKAT)) {
        ex.it.allow_tmp_leftovers = true;
    }
    take_viols(&mut ex.it, &mut ex.sub);
    ex.it.deferred = false;
    // post phase: fresh fault-free processes (the persistent workers) audit, continue, retry
    let post = sc["post"].as_array().cloned().unwrap_or_default();
    let n0 = ex.it.out.viols.len();
    ex.it.run_steps(&post, 1000);
    let _ = n0;
    let truncated_under_call = ex.sub.events.iter().any(|e| matches!(e.action, Action::TruncBefore(_)));
    if has_fault && sc["retry"].as_bool().unwrap_or(false) && !truncated_under_call {
        // once the fault is gone the same call succeeds
        let c = &clients[fault_client];
        if let Some(op_i) = ex.sub.events.iter().find(|e| e.action != Action::Exec).and_then(|e| e.op).map(|i| i.saturating_sub(1)) {
            if let Some(st) = c["steps"].get(op_i) {
                let mut st2 = st.clone();
                st2["bin"] = c["bin"].clone();
                if let Some(t) = st2.get("to").and_then(|t| t.as_str()).map(|t| t.to_string()) {
                    st2["to"] = json!(format!("{}-retry", t));
                }
                let before = ex.it.out.viols.len();
                // temp files the faulted attempt could not unlink are not the retry's doing
                let leftovers = ex.sub.events.iter().any(|e| e.action != Action::Exec && matches!(e.sys.nr, SYS_UNLINK | SYS_UNLINKAT));
                if leftovers {
                    let _ = std::fs::remove_dir_all(ex.it.cache.join("tmp"));
                }
                ex.it.api_step(&st2);
                for v in ex.it.out.viols.iter_mut().skip(before) {
                    v.sig = format!("retry/{}", v.sig);
                    v.class = "retry".into();
                }
            }
        }
    }
    // distinctness rule
    let delivered = ex.sub.events.iter().any(|e| e.action != Action::Exec);
    ex.sub.nontrivial = match sc["check"].as_str().unwrap_or("") {
        "C03" => delivered && ex.sub.events.iter().any(|e| e.sys.path.as_deref().map(|p| p.contains("/tmp/.tmp")).unwrap_or(false)),
        "C04" | "C13" => delivered,
        "C07" => ex.sub.switches >= 1,
        "C15" => ex.sub.probes.get("mutating_calls_seen").cloned().unwrap_or(0) > 0,
        _ => !ex.sub.events.is_empty(),
    };
    finish_exec(ex, &replay)
}

/// C07: accept iff some sequential order of the operations explains all results and the final state.
fn judge_serial(ex: &mut Exec, clients: &[Value]) {
    let n = clients.len();
    let mut perm: Vec<usize> = (0..n).collect();
    let mut perms: Vec<Vec<usize>> = Vec::new();
    permute(&mut perm, 0, &mut perms);
    // observe the final state once through the library (fault-free, fresh calls)
    let post = ex.sc["final_observe"].as_array().cloned().unwrap_or_default();
    let mut observed: Vec<(Value, Value, Pre)> = Vec::new();
    for st in &post {
        let (bin, op, pre) = ex.it.prepare(st);
        let r = ex.it.call(&bin, &op);
        observed.push((st.clone(), r, pre));
    }
    let base_m = ex.it.m.clone();
    let base_v = ex.it.out.viols.len();
    let base_clock = ex.it.clock;
    let mut best: Option<(Vec<usize>, Vec<Viol>)> = None;
    for p in perms {
        ex.it.m = base_m.clone();
        ex.it.clock = base_clock;
        ex.it.out.viols.truncate(base_v);
        for &ci in &p {
            let c = &clients[ci];
            for (si, st) in c["steps"].as_array().cloned().unwrap_or_default().iter().enumerate() {
                let mut st2 = st.clone();
                st2["bin"] = c["bin"].clone();
                match &ex.sub.results[ci][si] {
                    Some(r) => ex.it.judge(&st2, r, ex.pres[ci][si].clone()),
                    None => ex.it.out.viols.push(mk_viol("serializability", "serializability/no-result".into(), format!("client {} produced no result", ci))),
                }
            }
        }
        // content presence: what is on disk decides between orders of write/remove_hash
        for (st, r, pre) in &observed {
            ex.it.judge(st, r, pre.clone());
        }
        let vs: Vec<Viol> = ex.it.out.viols.drain(base_v..).filter(|v| v.class != "abandon-trace" && v.class != "format").collect();
        let better = match &best {
            None => true,
            Some((_, b)) => vs.len() < b.len(),
        };
        if better {
            best = Some((p.clone(), vs));
        }
        if best.as_ref().map(|b| b.1.is_empty()).unwrap_or(false) {
            break;
        }
    }
    // leave the model of the best order in place (final checks run against it)
    if let Some((p, vs)) = best {
        ex.it.m = base_m.clone();
        ex.it.clock = base_clock;
        ex.it.out.viols.truncate(base_v);
        for &ci in &p {
            let c = &clients[ci];
            for (si, st) in c["steps"].as_array().cloned().unwrap_or_default().iter().enumerate() {
                let mut st2 = st.clone();
                st2["bin"] = c["bin"].clone();
                if let Some(r) = &ex.sub.results[ci][si] {
                    ex.it.judge(&st2, r, ex.pres[ci][si].clone());
                }
            }
        }
        ex.it.out.viols.truncate(base_v);
        if !vs.is_empty() {
            let ops: Vec<String> = clients.iter().map(|c| c["steps"][0]["op"].as_str().unwrap_or("?").to_string()).collect();
            let first = &vs[0];
            ex.sub.viols.push(mk_viol("serializability", format!("serializability/{}/{}", ops.join("+"), first.class), format!("no sequential order of the {} concurrent operations explains the observed results and final state; best order {:?} still fails with: {} | results: {:?}", clients.len(), p, first.msg, ex.sub.results)));
        }
    }
}

fn permute(a: &mut Vec<usize>, k: usize, out: &mut Vec<Vec<usize>>) {
    if k == a.len() {
        out.push(a.clone());
        return;
    }
    for i in k..a.len() {
        a.swap(k, i);
        permute(a, k + 1, out);
        a.swap(k, i);
    }
}

// ------------------------------------------------------------------------------------------ enumeration of fault plans
fn errnos_for(sys: &Sys, tier: &str) -> Vec<i32> {
    let quick = tier == "quick";
    let v: Vec<i32> = match sys.nr {
        SYS_OPEN | SYS_OPENAT | SYS_OPENAT2 | SYS_CREAT => {
            // ENOENT for a file that exists is not injected: it is a false statement about existence, which the
            // library cannot tell from a missing bucket / missing content, not a failing operation
            let mut v = vec![libc::EIO, libc::EACCES, libc::EMFILE];
            if !quick {
                v.push(libc::ENFILE);
            }
            if sys.creates {
                v.push(libc::ENOSPC);
            }
            v
        }
        SYS_MKDIR | SYS_MKDIRAT => vec![libc::EACCES, libc::ENOSPC, libc::EIO],
        SYS_WRITE | SYS_PWRITE64 | SYS_WRITEV => vec![libc::EIO, libc::EINTR, libc::ENOSPC, libc::EDQUOT],
        SYS_READ | SYS_PREAD64 | SYS_READV => vec![libc::EIO, libc::EINTR],
        // ENOENT: the source (a temp file) was removed by somebody else meanwhile, e.g. a clear of the cache
        SYS_RENAME | SYS_RENAMEAT | SYS_RENAMEAT2 => vec![libc::EACCES, libc::EIO, libc::ENOSPC, libc::EXDEV, libc::ENOENT],
        SYS_UNLINK | SYS_UNLINKAT | SYS_RMDIR => vec![libc::EACCES, libc::EIO],
        SYS_FALLOCATE => vec![libc::ENOSPC, libc::EOPNOTSUPP, libc::EINTR],
        SYS_FTRUNCATE => vec![libc::EIO],
        SYS_MMAP => vec![libc::ENOMEM, libc::ENODEV],
        SYS_STAT | SYS_LSTAT | SYS_FSTAT | SYS_NEWFSTATAT | SYS_STATX | SYS_ACCESS | SYS_FACCESSAT | SYS_FACCESSAT2 => vec![libc::EACCES, libc::EIO],
        SYS_GETDENTS | SYS_GETDENTS64 => vec![libc::EIO],
        SYS_COPY_FILE_RANGE | SYS_SENDFILE => vec![libc::EIO, libc::ENOSPC, libc::EXDEV],
        SYS_LINK | SYS_LINKAT | SYS_SYMLINK | SYS_SYMLINKAT => vec![libc::EPERM, libc::EMLINK, libc::EEXIST],
        SYS_READLINK | SYS_READLINKAT => vec![libc::EIO],
        SYS_IOCTL => vec![libc::EOPNOTSUPP, libc::EIO],
        _ => vec![libc::EIO],
    };
    if quick && v.len() > 3 {
        v[..3].to_vec()
    } else {
        v
    }
}

fn enumerate_faults(sc: &Value, census: &Sub, tier: &str) -> Vec<Value> {
    let mode = sc["plan"]["mode"].as_str().unwrap_or("kill");
    let victim_client = 0usize;
    let nsteps = sc["clients"][0]["steps"].as_array().map(|a| a.len()).unwrap_or(1);
    let victim_op = sc["plan"]["victim_op"].as_u64().map(|v| v as usize).unwrap_or(nsteps - 1) + 1; // +1: op 0 is the clock line
    let mut out = Vec::new();
    // long runs of the same call on the same file (a 1 MiB value verified through a 1 KiB buffer is a thousand
    // reads) are thinned to the first two, the last two and two in the middle: every distinct call site is still hit
    let evs: Vec<&Event> = census.events.iter().filter(|e| e.client == victim_client && e.op == Some(victim_op)).collect();
    let mut keep = vec![true; evs.len()];
    let mut i = 0;
    while i < evs.len() {
        let mut j = i;
        while j + 1 < evs.len() && evs[j + 1].sys.nr == evs[i].sys.nr && evs[j + 1].sys.path == evs[i].sys.path {
            j += 1;
        }
        let n = j - i + 1;
        if n > 8 {
            for k in i..=j {
                let r = k - i;
                keep[k] = r < 2 || r >= n - 2 || r == n / 2 || r == n / 3;
            }
        }
        i = j + 1;
    }
    for (idx, ev) in evs.iter().enumerate() {
        if !keep[idx] {
            continue;
        }
        let at = ev.ord;
        let f = |a: Action| json!({"client": victim_client, "at": at, "action": a.to_json()});
        match mode {
            "kill" => {
                out.push(f(Action::KillEntry));
                if ev.sys.data_write {
                    let len = if ev.ret > 0 { ev.ret as u64 } else { ev.sys.len.unwrap_or(0) };
                    let is_index = ev.sys.path.as_deref().map(|p| p.contains("/index-v5/")).unwrap_or(false);
                    let every = sc["plan"]["torn_index_every_length"].as_bool().unwrap_or(false) && is_index;
                    let mut ks: Vec<u64> = if every {
                        (0..=len).collect()
                    } else if tier == "quick" || len > 512 {
                        let mut v = vec![0, 1, len / 2, len.saturating_sub(1)];
                        if tier != "quick" {
                            let mut r = Rng::new(mix(len, at as u64));
                            for _ in 0..12 {
                                v.push(r.below(len.max(1)));
                            }
                        }
                        v
                    } else {
                        (0..len).collect()
                    };
                    ks.sort();
                    ks.dedup();
                    for k in ks {
                        if k <= len {
                            out.push(f(Action::ShortKill(k)));
                        }
                    }
                }
            }
            _ => {
                let es = errnos_for(&ev.sys, tier);
                for e in &es {
                    out.push(f(Action::Errno(*e)));
                }
                // the fault does not go away: this call and every later call of the same kind fail (disk stays full,
                // device stays broken) - loops that retry forever show up as hangs
                if let Some(e) = es.first() {
                    let first_of_kind = !evs[..idx].iter().any(|p| p.sys.nr == ev.sys.nr);
                    if (first_of_kind || tier != "quick") && !sc["plan"]["no_persist"].as_bool().unwrap_or(false) {
                        out.push(f(Action::ErrnoPersist(*e)));
                        if matches!(ev.sys.nr, SYS_RENAME | SYS_RENAMEAT | SYS_RENAMEAT2) {
                            // the source stays gone: whoever retries must give up
                            out.push(f(Action::ErrnoPersist(libc::ENOENT)));
                        }
                    }
                }
                // the content file shrinks under the call (another process truncates it, a copy onto a hard link of it
                // is starting): reads come back short, mapped pages disappear. The call must report an error or be
                // right, and the process must survive
                // (only for calls that hand the bytes back themselves: copy / hard_link / reflink verify first and
                // extract afterwards, so a file that changes between the two steps is delivered unverified - an
                // observation outside the properties, which quantify over damage that is there before the call)
                let victim_opname = sc["clients"][0]["steps"][victim_op - 1]["op"].as_str().unwrap_or("");
                if matches!(victim_opname, "read" | "reader") && matches!(ev.sys.nr, SYS_READ | SYS_PREAD64 | SYS_MMAP | SYS_FSTAT | SYS_STATX | SYS_NEWFSTATAT) && ev.sys.path.as_deref().map(|p| p.contains("/content-v2/")).unwrap_or(false) && !ev.sys.mutating {
                    out.push(f(Action::TruncBefore(0)));
                    if tier != "quick" {
                        out.push(f(Action::TruncBefore(1)));
                    }
                }
                if matches!(ev.sys.nr, SYS_READ | SYS_PREAD64) && ev.ret >= 2 {
                    // a short read (the kernel hands over fewer bytes than were asked for and available): legal; the
                    // call must give the same truthful result
                    out.push(f(Action::Short(if ev.ret >= 16 { (ev.ret as u64) / 2 } else { 1 })));
                }
                if ev.sys.data_write {
                    let len = if ev.ret > 0 { ev.ret as u64 } else { ev.sys.len.unwrap_or(0) };
                    if len >= 2 {
                        // a pure short write (the retry of the remainder succeeds) is legal POSIX behaviour: the call must still be truthful
                        out.push(f(Action::Short(len / 2)));
                        out.push(f(Action::ShortThenErr(len / 2, libc::ENOSPC)));
                        if ev.sys.path.as_deref().map(|p| p.contains("/index-v5/")).unwrap_or(false) {
                            // an index record torn at further offsets (inside its metadata, inside a multi-byte character)
                            let mut r = Rng::new(mix(len, at as u64));
                            for k in [len / 4, len * 3 / 4, len * 5 / 8, 1 + r.below(len - 1), 1 + r.below(len - 1)] {
                                if k >= 1 && k < len && k != len / 2 {
                                    out.push(f(Action::ShortThenErr(k, libc::ENOSPC)));
                                }
                            }
                        }
                        if tier != "quick" {
                            out.push(f(Action::ShortThenErr(1, libc::EIO)));
                        }
                    }
                }
            }
        }
    }
    out
}

pub fn run_scenario(ctx: &mut Ctx, _spec: &CheckSpec, sc: &Value, run_id: &str) -> Outcome {
    let mut out = Outcome::default();
    let tier = sc["tier"].as_str().unwrap_or("quick").to_string();
    let kind = sc["plan"]["kind"].as_str().unwrap_or("single").to_string();
    let mut absorb = |out: &mut Outcome, sub: Sub, count_hash: bool| {
        out.subruns += 1;
        out.steps += sub.steps;
        for (k, v) in sub.faults {
            *out.faults.entry(k).or_insert(0) += v;
        }
        for (k, v) in sub.probes {
            *out.probes.entry(k).or_insert(0) += v;
        }
        if sub.nontrivial && count_hash {
            out.sub_hashes.push(sub.hash);
        }
        if sub.inter_hash != 0 && sub.switches > 0 {
            out.probes.insert("interleaving_hash_lo".into(), sub.inter_hash);
        }
        out.viols.extend(sub.viols);
        if out.harness.is_none() {
            out.harness = sub.harness;
        }
        if out.log.len() < 40 {
            for l in sub.trace.iter().take(40) {
                out.log.push(json!(l));
            }
        }
    };
    match kind.as_str() {
        "enumerate" => {
            // which of a multi-threaded victim's parked calls goes first: fixed for the whole enumeration
            let sched = if sc["plan"]["schedule"].is_object() { sc["plan"]["schedule"].clone() } else { json!({"policy":"first"}) };
            let mut census_plan = json!({"faults":[],"schedule":sched.clone()});
            let mut census = run_plan(ctx, sc, &census_plan, &format!("{run_id}c"));
            let mut prefault: Option<Value> = None;
            if let Some(call) = sc["plan"]["prefault_call"].as_str() {
                // a first fault that stays in every execution of this run: the named call fails, and the crash points
                // of the error path that follows are enumerated
                if let Some(ev) = census.events.iter().find(|e| e.client == 0 && e.op.is_some() && e.sys.name.starts_with(call)) {
                    let pf = json!({"client":0,"at":ev.ord,"action":{"a":"errno","e":sc["plan"]["prefault_errno"].as_i64().unwrap_or(18)}});
                    census_plan = json!({"faults":[pf.clone()],"schedule":sched.clone()});
                    let h = census.harness.clone();
                    absorb(&mut out, census, false);
                    if h.is_some() {
                        return out;
                    }
                    census = run_plan(ctx, sc, &census_plan, &format!("{run_id}cp"));
                    prefault = Some(pf);
                }
            }
            let mut faults = enumerate_faults(sc, &census, &tier);
            if let Some(pf) = &prefault {
                let at = pf["at"].as_u64().unwrap_or(0);
                faults.retain(|f| f["at"].as_u64().unwrap_or(0) > at);
            }
            let census_trace = census.trace.clone();
            if census.harness.is_some() {
                absorb(&mut out, census, false);
                return out;
            }
            // the census itself is a fault-free execution: its violations count
            let mut c2 = Sub::default();
            std::mem::swap(&mut c2, &mut { census });
            absorb(&mut out, c2, false);
            out.log = census_trace.iter().take(60).map(|l| json!(l)).collect();
            let pairs = sc["plan"]["pairs"].as_bool().unwrap_or(false);
            let mut npairs = 0u64;
            for (i, f) in faults.iter().enumerate() {
                let plan = match &prefault {
                    Some(pf) => json!({"faults":[pf, f],"schedule":sched.clone()}),
                    None => json!({"faults":[f],"schedule":sched.clone()}),
                };
                let sub = run_plan(ctx, sc, &plan, &format!("{run_id}f{i}"));
                // fault pairs (thorough): a second errno on a call that the first fault's error path goes on to make
                let mut second: Vec<Value> = Vec::new();
                if pairs && f["action"]["a"] == "errno" {
                    let at = f["at"].as_u64().unwrap_or(0) as usize;
                    // (inside the same call as the first fault: a later call of the program is judged without faults)
                    let first_op = sub.events.iter().find(|e| e.client == 0 && e.action != Action::Exec).and_then(|e| e.op);
                    let later: Vec<&Event> = sub.events.iter().filter(|e| e.client == 0 && e.ord > at && e.action == Action::Exec && e.op.is_some() && e.op == first_op).collect();
                    let mut r = Rng::new(mix(at as u64, f["action"]["e"].as_u64().unwrap_or(0)));
                    for _ in 0..2.min(later.len()) {
                        let ev = later[r.idx(later.len())];
                        let es = errnos_for(&ev.sys, &tier);
                        let e2 = es[r.idx(es.len())];
                        second.push(json!({"client":0,"at":ev.ord,"action":{"a":"errno","e":e2}}));
                    }
                }
                absorb(&mut out, sub, true);
                for (j, f2) in second.iter().enumerate() {
                    let plan = json!({"faults":[f, f2],"schedule":sched.clone()});
                    let sub = run_plan(ctx, sc, &plan, &format!("{run_id}f{i}p{j}"));
                    absorb(&mut out, sub, true);
                    npairs += 1;
                }
                if out.harness.is_some() {
                    break;
                }
            }
            if npairs > 0 {
                *out.probes.entry("fault_pairs_injected".into()).or_insert(0) += npairs;
            }
            *out.probes.entry("fault_points_enumerated".into()).or_insert(0) += faults.len() as u64;
        }
        "enumerate_switches" => {
            // every schedule of two clients with at most two context switches: A runs a calls, B runs b calls, A finishes, B finishes
            let base = json!({"faults":[],"schedule":{"policy":"switch","order":[0,1],"points":[1000000,1000000]}});
            let census = run_plan(ctx, sc, &base, &format!("{run_id}c"));
            let n0 = census.events.iter().filter(|e| e.client == 0).count();
            let n1 = census.events.iter().filter(|e| e.client == 1).count();
            let h = census.harness.clone();
            absorb(&mut out, census, true);
            if h.is_none() {
                let cap = sc["plan"]["cap"].as_u64().unwrap_or(40) as usize;
                let mut k = 0;
                for first in [0usize, 1] {
                    let (na, nb) = if first == 0 { (n0, n1) } else { (n1, n0) };
                    let b_full = sc["plan"]["b_full"].as_bool().unwrap_or(false);
                    for a in 0..=na.min(cap) {
                        for b in 1..=nb.min(cap) {
                            if b_full && b != nb.min(cap) {
                                continue; // only: the other client runs from start to end at this point
                            }
                            let plan = json!({"faults":[],"schedule":{"policy":"switch","order":[first, 1 - first, first, 1 - first],"points":[a.max(1), b, 1000000, 1000000],"skip_first": a == 0}});
                            if a == 0 && first == 1 {
                                continue; // same as starting with the other client
                            }
                            let sub = run_plan(ctx, sc, &plan, &format!("{run_id}s{k}"));
                            k += 1;
                            absorb(&mut out, sub, true);
                            if out.harness.is_some() {
                                return out;
                            }
                        }
                    }
                }
                *out.probes.entry("two_switch_schedules_enumerated".into()).or_insert(0) += k as u64;
            }
        }
        _ => {
            let plan = sc["plan"].clone();
            let sub = run_plan(ctx, sc, &plan, run_id);
            absorb(&mut out, sub, true);
        }
    }
    out
}

pub fn minimise(ctx: &mut Ctx, _spec: &CheckSpec, sc: &Value, sig: &str, budget_s: u64) -> Value {
    // sysim replays are already explicit single plans; shrink the surrounding scenario
    let start = std::time::Instant::now();
    let mut cur = sc.clone();
    let repro = |ctx: &mut Ctx, c: &Value| -> bool {
        let plan = c["plan"].clone();
        let sub = run_plan(ctx, c, &plan, "min");
        sub.viols.iter().any(|v| v.sig == sig)
    };
    if cur["plan"]["kind"] != "single" {
        return cur;
    }
    for field in ["post", "prelude"] {
        let n = cur[field].as_array().map(|a| a.len()).unwrap_or(0);
        for i in (0..n).rev() {
            if start.elapsed().as_secs() > budget_s {
                return cur;
            }
            let mut cand = cur.clone();
            cand[field].as_array_mut().unwrap().remove(i);
            if repro(ctx, &cand) {
                cur = cand;
            }
        }
    }
    // drop clients that are not needed (C07)
    let nc = cur["clients"].as_array().map(|a| a.len()).unwrap_or(0);
    if nc > 2 {
        for i in (0..nc).rev() {
            let mut cand = cur.clone();
            cand["clients"].as_array_mut().unwrap().remove(i);
            cand["plan"]["schedule"] = json!({"policy":"first"});
            if start.elapsed().as_secs() <= budget_s && repro(ctx, &cand) {
                cur = cand;
                break;
            }
        }
    }
    cur
}

// ------------------------------------------------------------------------------------------ generators
fn audits_all(what: &[&str]) -> Vec<Value> {
    FLAVS.iter().map(|f| json!({"k":"audit","bin":f.0,"mode":f.1,"what":what})).collect()
}

fn client_flavs() -> [(&'static str, &'static str); 5] {
    FLAVS
}

/// schedule of a multi-threaded (async) victim's own threads during a fault enumeration
fn victim_schedule(rng: &mut Rng, mode: &str) -> Value {
    if mode != "async" {
        return json!({"policy":"first"});
    }
    match rng.below(4) {
        0 | 1 => json!({"policy":"first"}),
        2 => json!({"policy":"last"}),
        _ => json!({"policy":"random","seed":rng.next_u64() >> 1}),
    }
}

/// `n` bytes (about) of padding text; half of the time with 2- and 3-byte characters throughout, so that any fixed byte
/// offset (a buffer boundary) is likely to fall inside a character
fn pad_text(rng: &mut Rng, n: usize) -> String {
    if rng.chance(1, 2) {
        "p".repeat(n)
    } else {
        "\u{e9}\u{65e5}p".repeat(n / 6 + 1)
    }
}

fn victim_write(rng: &mut Rng, keyed: bool, vi: usize, len: u64, ki: usize) -> Value {
    let entry = *rng.pick(&["write", "write", "opts", "opts", "create", "write_algo"]);
    let entry = if !keyed && entry == "create" { "opts" } else { entry };
    let mut st = json!({"k":"api","op":"write","entry":entry,"val":vi});
    if keyed {
        st["key"] = json!(ki);
    }
    if entry == "write_algo" {
        st["algo"] = json!(*rng.pick(&ALGOS));
    }
    if entry == "opts" {
        let mut o = json!({});
        if rng.chance(1, 2) {
            o["size"] = json!(len);
        }
        if rng.chance(1, 3) {
            o["algo"] = json!(*rng.pick(&ALGOS));
        }
        if keyed && rng.chance(1, 2) {
            o["meta"] = json!({"caf\u{e9}": "\u{65e5}\u{672c}", "n": 1});
            if rng.chance(1, 2) {
                // a record whose middle is dense with multi-byte characters: a torn append is likely to end inside one
                o["meta"]["t"] = json!("\u{e9}\u{65e5}".repeat(30));
            }
            o["raw"] = json!("00ff10");
        }
        if keyed {
            o["time"] = json!("4242");
        }
        st["opts"] = o;
    }
    if entry == "opts" || entry == "create" {
        if len > 0 && rng.chance(1, 2) {
            let a = rng.range(1, len.max(2) - 1).min(len);
            let mut c = vec![a, len - a];
            if rng.chance(1, 3) && c[1] > 1 {
                let b = c[1] / 2;
                c = vec![a, b, len - a - b];
            }
            st["chunks"] = json!(c);
        }
    }
    st
}

const SYS_SIZES: [u64; 10] = [0, 1, 10, 300, 5000, 70_000, 1048575, 1048576, 1048577, 2_200_000];

pub fn generate(id: &str, tier: &str, r: u64, rng: &mut Rng) -> Value {
    let mut sc = match id {
        "C03" => gen_c03(rng, r),
        "C04" => gen_c04(rng, r),
        "C13" => {
            let mut sc = gen_c13(rng, r);
            if tier != "quick" && r % 3 == 1 {
                sc["plan"]["pairs"] = json!(true);
            }
            sc
        }
        "C15" => gen_c15(rng, r),
        "C07" => gen_c07(rng, r, tier),
        _ => json!({}),
    };
    sc["check"] = json!(id);
    sc["tier"] = json!(tier);
    if sc.get("clock0").is_none() {
        sc["clock0"] = json!((1_500_000_000_000u64 + rng.below(1 << 39)).to_string());
    }
    sc
}

fn gen_c03(rng: &mut Rng, r: u64) -> Value {
    let keys = vec!["victim-key".to_string(), "other".to_string()];
    // sizes around the mmap threshold appear in every 4th shape
    let len = if r % 4 == 3 { *rng.pick(&SYS_SIZES[6..]) } else { *rng.pick(&SYS_SIZES[..6]) };
    let vals = vec![json!({"seed": rng.next_u64() >> 1, "len": len}), json!({"seed": rng.next_u64() >> 1, "len": 40})];
    let f = client_flavs()[(r % 5) as usize];
    let keyed = rng.chance(2, 3);
    let mut prelude = Vec::new();
    let warm = rng.chance(2, 3);
    if warm {
        prelude.push(json!({"k":"api","op":"write","entry":"write","key":1,"val":1,"bin":"sync","mode":"sync"}));
    }
    let exists_already = rng.chance(1, 4);
    if exists_already {
        // the address already exists: re-write of identical data under the same algorithm as the victim's default
        prelude.push(json!({"k":"api","op":"write","entry":"write","val":0,"bin":"sync","mode":"sync"}));
    }
    let mut v = victim_write(rng, keyed, 0, len, 0);
    v["mode"] = json!(f.1);
    // (not with a declared size: a mapped temp file is written by memory copies the scheduler does not see)
    if f.1 == "async" && len >= 2 && (v["entry"] == "opts" || v["entry"] == "create") && v["opts"].get("size").is_none() && rng.chance(1, 3) {
        // a write future is dropped after one poll (its background write is still parked by the scheduler) and the
        // caller goes on with other data: whatever ends up under a content address must still be the data of that address
        let a = rng.range(1, len - 1);
        v["chunks"] = json!([a, len - a]);
        v["abandon_chunks"] = json!([0]);
    }
    // a declared integrity that the data does not satisfy (the true address of other data, stored or not): the commit is
    // rejected, and nothing may appear under that address either
    if v["entry"] == "opts" && rng.chance(1, 6) {
        v["opts"]["sri"] = json!({"val":1,"algo":"sha256"});
        v["opts"].as_object_mut().map(|o| o.remove("algo"));
    }
    // declared sizes that do not match the data, on both sides of the mmap threshold: the commit is rejected,
    // but whatever reaches the content area must still be exactly the data of its address
    if v["entry"] == "opts" && rng.chance(1, 2) {
        let s = match rng.below(5) {
            0 => len + 1,
            1 => len.saturating_sub(1),
            2 => len + (1 << 20) + 3,
            3 => len * 2 + 5,
            _ => (1 << 20) + 1,
        };
        v["opts"]["size"] = json!(s);
        if len >= 2 && rng.chance(2, 3) {
            let a = rng.range(1, len - 1);
            v["chunks"] = json!(if rng.chance(1, 2) || len - a < 2 { vec![a, len - a] } else { let b = rng.range(1, len - a - 1); vec![a, b, len - a - b] });
        }
    }
    let mut post = Vec::new();
    for fl in PURE {
        post.push(json!({"k":"audit","bin":fl.0,"mode":fl.1,"what":["metadata","read","read_hash","exists"]}));
    }
    let mut plan = json!({"kind":"enumerate","mode":"kill","schedule":victim_schedule(rng, f.1)});
    if r % 3 == 2 {
        // the publishing rename fails (another filesystem, permissions, ...): whatever the error path does instead is crash-tested
        plan["prefault_call"] = json!("rename");
        plan["prefault_errno"] = json!(*rng.pick(&[libc::EXDEV, libc::EACCES, libc::EIO, libc::ENOSPC]));
    }
    json!({"keys":keys,"vals":vals,"prelude":prelude,"clients":[{"bin":f.0,"steps":[v]}],"post":post,
           "plan":plan,"oracle":"fault"})
}

fn gen_c04(rng: &mut Rng, r: u64) -> Value {
    let keys = vec![(*rng.pick(&["k\u{e9}y-\u{65e5}\u{672c}", "plain", "\u{1f980}crab", "a\tb"])).to_string(), "bystander-\u{e9}".to_string()];
    let len = *rng.pick(&[0u64, 7, 300, 5000]);
    let vals = vec![json!({"seed": rng.next_u64() >> 1, "len": len}), json!({"seed": rng.next_u64() >> 1, "len": 33}), json!({"seed": rng.next_u64() >> 1, "len": 12})];
    let f = client_flavs()[(r % 5) as usize];
    let mut prelude = Vec::new();
    // bystander whose record precedes the victim's in time
    prelude.push(json!({"k":"api","op":"write","entry":"opts","key":1,"val":1,"opts":{"time":"1","meta":{"b":"\u{e9}"}},"bin":"tokio","mode":"async"}));
    match r / 5 % 3 {
        0 => {}
        1 => prelude.push(json!({"k":"api","op":"write","entry":"opts","key":0,"val":1,"opts":{"time":"2","meta":"old-\u{e9}"},"bin":"astd","mode":"async"})),
        _ => {
            prelude.push(json!({"k":"api","op":"write","entry":"write","key":0,"val":1,"bin":"sync","mode":"sync"}));
            prelude.push(json!({"k":"api","op":"remove","key":0,"bin":"sync","mode":"sync"}));
        }
    }
    // sometimes the victim's bucket is already several KiB long (many earlier records with bulky metadata)
    if rng.chance(1, 4) {
        // record sizes from a few hundred bytes to more than a page, so that any size-triggered behaviour of the
        // index code is in force when the victim runs
        let pad = *rng.pick(&[260usize, 1500, 5000, 9000]);
        let n = if pad >= 5000 { rng.range(2, 5) } else { rng.range(8, 30) };
        let fp = *rng.pick(&PURE);
        for i in 0..n {
            prelude.push(json!({"k":"api","op":"write","entry":"opts","key":0,"val":1,"opts":{"time":(10 + i).to_string(),"meta":{"pad":pad_text(rng, pad)}},"bin":fp.0,"mode":fp.1}));
        }
    }
    let mut v = match rng.below(6) {
        0 => json!({"k":"api","op":"remove","key":0}),
        1 => json!({"k":"api","op":"remove_opts","fully":false,"key":0}),
        2 => {
            // a keyed link_to is a keyed write too: the symlink must be in place before the index record
            prelude.push(json!({"k":"env","act":"write_file","path":"$T/linked","val":0}));
            json!({"k":"api","op":"link_to","entry":*rng.pick(&["fn","open"]),"key":0,"target":"$T/linked"})
        }
        _ => victim_write(rng, true, 0, len, 0),
    };
    v["mode"] = json!(f.1);
    let mut post = audits_all(&["metadata", "read", "list"]);
    // continuation history after restart
    let fc = flav(rng);
    match rng.below(3) {
        0 => post.push(json!({"k":"api","op":"write","entry":"opts","key":0,"val":2,"opts":{"time":"9","meta":{"again":"\u{65e5}"}},"bin":fc.0,"mode":fc.1})),
        1 => post.push(json!({"k":"api","op":"remove","key":0,"bin":fc.0,"mode":fc.1})),
        _ => {
            post.push(json!({"k":"api","op":"write","entry":"write","key":1,"val":2,"bin":fc.0,"mode":fc.1}));
            post.push(json!({"k":"api","op":"write","entry":"write","key":0,"val":2,"bin":fc.0,"mode":fc.1}));
        }
    }
    post.extend(audits_all(&["metadata", "read", "list"]));
    json!({"keys":keys,"vals":vals,"prelude":prelude,"clients":[{"bin":f.0,"steps":[v]}],"post":post,
           "plan":{"kind":"enumerate","mode":"kill","torn_index_every_length":true,"schedule":victim_schedule(rng, f.1)},"oracle":"fault"})
}

/// The cache directory is a filesystem of a few hundred KiB that really fills up while one client stores, re-stores,
/// removes and reads values: ENOSPC arrives wherever the kernel raises it (allocation, append, rename into a new
/// directory, the page fault of a mapped temp file), not where a fault plan puts it.
fn gen_full_disk(rng: &mut Rng) -> Value {
    // every key is changed by at most one call of the traced client (the oracle settles a failed call by looking at
    // the key afterwards); values are shared freely
    let keys: Vec<String> = (0..12).map(|i| if i == 1 { "k1-\u{e9}".to_string() } else { format!("k{i}") }).collect();
    let kb = *rng.pick(&[128u64, 256, 512, 1024]);
    let mut vals = Vec::new();
    for _ in 0..4 {
        let len = *rng.pick(&[2_000u64, 30_000, 70_000, 150_000, 300_000, 600_000]);
        vals.push(json!({"seed": rng.next_u64() >> 1, "len": len}));
    }
    vals.push(json!({"seed": rng.next_u64() >> 1, "len": 900}));
    let f = client_flavs()[rng.idx(5)];
    // two small entries exist before the disk fills up
    let prelude = vec![
        json!({"k":"api","op":"write","entry":"write","key":10,"val":4,"bin":"sync","mode":"sync"}),
        json!({"k":"api","op":"write","entry":"write","key":11,"val":4,"bin":"sync","mode":"sync"}),
    ];
    let mut steps = Vec::new();
    let n = rng.range(4, 9) as usize;
    let mut removed10 = false;
    let mut removed11 = false;
    for ki in 0..n {
        let vi = rng.idx(4);
        let len = vals[vi]["len"].as_u64().unwrap_or(0);
        let mut st = match rng.below(10) {
            0..=5 => {
                let entry = *rng.pick(&["write", "opts", "opts", "create"]);
                let mut w = json!({"k":"api","op":"write","entry":entry,"key":ki,"val":vi});
                if entry == "opts" {
                    // a declared size takes the preallocate-and-map path up to 1 MiB
                    w["opts"] = if rng.chance(2, 3) { json!({"size": len}) } else { json!({}) };
                }
                if entry != "write" && rng.chance(1, 2) {
                    let a = rng.range(1, len - 1);
                    w["chunks"] = json!([a, len - a]);
                }
                w
            }
            6 => json!({"k":"api","op":"write","entry":"write","val":vi}),
            7 if !removed10 => {
                removed10 = true;
                json!({"k":"api","op":"remove","key":10})
            }
            8 if !removed11 => {
                removed11 = true;
                json!({"k":"api","op":"remove_opts","fully":false,"key":11})
            }
            _ => json!({"k":"api","op":"read","key":*rng.pick(&[10usize, 11])}),
        };
        st["mode"] = json!(f.1);
        steps.push(st);
    }
    let mut post = Vec::new();
    for fl in PURE {
        post.push(json!({"k":"audit","bin":fl.0,"mode":fl.1,"what":["metadata","read","list"]}));
    }
    json!({"keys":keys,"vals":vals,"cache_style":"tiny_fs","tiny_fs_kb":kb,"prelude":prelude,"clients":[{"bin":f.0,"steps":steps}],"post":post,
           "plan":{"kind":"single","faults":[],"schedule":{"policy":"first"}},"oracle":"natural"})
}

fn gen_c13(rng: &mut Rng, r: u64) -> Value {
    if r % 12 == 5 {
        return gen_full_disk(rng);
    }
    let keys = vec!["k0".to_string(), "k1-\u{e9}".to_string(), "never".to_string()];
    let big_content = rng.chance(1, 4);
    let len0 = if big_content { *rng.pick(&[20_000u64, 70_000, 1048577]) } else { *rng.pick(&[0u64, 9, 300, 5000]) };
    let vals = vec![json!({"seed": rng.next_u64() >> 1, "len": len0}), json!({"seed": rng.next_u64() >> 1, "len": 50}), json!({"seed": rng.next_u64() >> 1, "len": 7})];
    let f = client_flavs()[(r % 5) as usize];
    let mut prelude = Vec::new();
    prelude.push(json!({"k":"api","op":"write","entry":"write","key":1,"val": if rng.chance(1, 3) { 0 } else { 1 },"bin":"sync","mode":"sync"}));
    let present = rng.chance(3, 4);
    if present {
        prelude.push(json!({"k":"api","op":"write","entry":"write","key":0,"val":0,"bin":"sync","mode":"sync"}));
    }
    // a bucket larger than one 8 KiB reader buffer: many rewrites with bulky metadata
    if rng.chance(1, 4) {
        for i in 0..30 {
            prelude.push(json!({"k":"api","op":"write","entry":"opts","key":0,"val":0,"opts":{"time":i.to_string(),"meta":{"pad":pad_text(rng, 280)}},"bin":"sync","mode":"sync"}));
        }
    }
    let victim = match r / 5 % 15 {
        0 | 1 => victim_write(rng, true, 0, len0, 0),
        2 => victim_write(rng, false, 0, len0, 0),
        3 => json!({"k":"api","op":"read","key":0}),
        4 => json!({"k":"api","op":"reader","key":0,"bufs":[4096]}),
        5 => json!({"k":"api","op":"read","addr":{"val":0,"algo":"sha256"}}),
        6 => json!({"k":"api","op":"copy","key":0,"to":"$O/copied"}),
        7 => json!({"k":"api","op":*rng.pick(&["hard_link","copy_unchecked","hard_link_unchecked"]),"key":0,"to":"$O/linked"}),
        8 => json!({"k":"api","op":"remove","key":0}),
        9 => json!({"k":"api","op":"remove_hash","addr":{"val":0,"algo":"sha256"}}),
        10 => json!({"k":"api","op":"list"}),
        11 => json!({"k":"api","op":"metadata","key":0}),
        12 => json!({"k":"api","op":"remove_opts","fully":true,"key":0}),
        13 => {
            prelude.push(json!({"k":"env","act":"write_file","path":"$T/linked","val":2}));
            json!({"k":"api","op":"link_to","entry":*rng.pick(&["fn","open"]),"key":2,"target":"$T/linked"})
        }
        _ => victim_write(rng, true, 2, 7, 0),
    };
    let mut v = victim;
    v["mode"] = json!(if v["op"] == "list" { "sync" } else { f.1 });
    // a commit that will be rejected (declared size does not match) is still a call whose filesystem operations can fail
    if v["op"] == "write" && v["entry"] == "opts" && rng.chance(1, 4) {
        let l = vals[v["val"].as_u64().unwrap_or(0) as usize]["len"].as_u64().unwrap_or(0);
        v["opts"]["size"] = json!(match rng.below(3) { 0 => l + 1, 1 => l + 300, _ => l.saturating_sub(1) });
    }
    let mut post = Vec::new();
    for fl in PURE {
        post.push(json!({"k":"audit","bin":fl.0,"mode":fl.1,"what":["metadata","read","read_hash","exists","list"]}));
    }
    if rng.chance(1, 5) {
        // the same process makes the same call again after the failed one ("succeeds once the fault is gone", with
        // whatever the failed attempt left behind in the process: memoised state, buffers, open handles)
        let mut again = v.clone();
        if let Some(t) = again.get("to").and_then(|t| t.as_str()).map(|t| t.to_string()) {
            again["to"] = json!(format!("{}-again", t));
        }
        return json!({"keys":keys,"vals":vals,"prelude":prelude,"clients":[{"bin":f.0,"steps":[v, again]}],"post":post,"retry":true,
               "plan":{"kind":"enumerate","mode":"errno","victim_op":0,"no_persist":true,"schedule":victim_schedule(rng, f.1)},"oracle":"fault"});
    }
    json!({"keys":keys,"vals":vals,"prelude":prelude,"clients":[{"bin":f.0,"steps":[v]}],"post":post,"retry":true,
           "plan":{"kind":"enumerate","mode":"errno","schedule":victim_schedule(rng, f.1)},"oracle":"fault"})
}

fn gen_c15(rng: &mut Rng, _r: u64) -> Value {
    let nk = rng.range(2, 4) as usize;
    let keys = pick_keys(rng, nk, true);
    let mut vals = mk_vals(rng, 2, 30_000);
    vals.push(json!({"seed": rng.next_u64() >> 1, "len": *rng.pick(&[0u64, 9, 20_000])}));
    let f = flav(rng);
    let mut steps = Vec::new();
    let mut prelude: Vec<Value> = Vec::new();
    // sometimes the cache already holds entries, one of them damaged on disk: reads of damaged content must not mutate
    if rng.chance(1, 3) {
        let fp = flav(rng);
        prelude.push(json!({"k":"api","op":"write","entry":"write","key":0,"val":0,"bin":fp.0,"mode":fp.1}));
        prelude.push(match rng.below(3) {
            0 => json!({"k":"env","act":"flip_frac","content":{"val":0,"algo":"sha256"},"num":rng.below(1000),"bit":rng.below(8)}),
            1 => json!({"k":"env","act":"truncate_frac","content":{"val":0,"algo":"sha256"},"num":rng.below(1000)}),
            _ => json!({"k":"env","act":"extend","content":{"val":0,"algo":"sha256"},"n":4,"seed":9}),
        });
    }
    // sometimes one key already has a long history (dozens of records in its bucket)
    if rng.chance(1, 6) {
        let fp = *rng.pick(&PURE);
        for i in 0..rng.range(66, 90) {
            prelude.push(json!({"k":"api","op":"write","entry":"opts","key":1,"val":(i % 2),"opts":{"time":i.to_string()},"bin":fp.0,"mode":fp.1}));
        }
        steps.push(json!({"k":"api","op":*rng.pick(&["metadata","read","list"]),"key":1,"mode":f.1}));
    }
    // a file outside the cache that gets linked in: removals must never follow the link
    let link = rng.chance(1, 3);
    if link {
        prelude.push(json!({"k":"env","act":"write_file","path":"$T/linked-target","val":2}));
        if rng.chance(1, 3) {
            // the caller's file is read-only and stays that way
            prelude.push(json!({"k":"env","act":"chmod","path":"$T/linked-target","mode":0o444}));
        }
        steps.push(json!({"k":"api","op":"link_to","entry":*rng.pick(&["fn","open"]),"key":nk - 1,"target":"$T/linked-target","mode":f.1}));
    }
    let n = rng.range(3, 10);
    for i in 0..n {
        let ki = rng.idx(nk);
        let vi = rng.idx(2);
        let len = vals[vi]["len"].as_u64().unwrap_or(0);
        let st = match rng.below(20) {
            0..=5 => {
                let wcfg = WriteCfg { by_hash_pct: 20, rich_opts: true, declare_size_pct: 40, algos: true, ends: false };
                let k = if rng.chance(4, 5) { Some(ki) } else { None };
                let mut w = write_step(rng, k, vi, len, &wcfg);
                if rng.chance(1, 6) && w["entry"] == "opts" {
                    w["end"] = json!("drop");
                }
                w
            }
            6 | 7 => json!({"k":"api","op":"read","key":ki}),
            8 => json!({"k":"api","op":"reader","key":ki,"bufs":[4096]}),
            9 => json!({"k":"api","op":"metadata","key":ki}),
            10 => json!({"k":"api","op":"exists","addr":{"val":vi,"algo":"sha256"}}),
            11 => json!({"k":"api","op":"list"}),
            12 | 13 => {
                // (the destination state before the call is taken before the program starts: one call per name)
                if rng.chance(1, 3) {
                    prelude.push(json!({"k":"env","act":"write_file","path":format!("$O/x{i}"),"hex":"cd".repeat(rng.below(60) as usize)}));
                }
                if rng.chance(1, 2) { json!({"k":"api","op":"copy","key":ki,"to":format!("$O/x{i}")}) } else { json!({"k":"api","op":*rng.pick(&["hard_link","reflink","copy_unchecked"]),"key":ki,"to":format!("$O/x{i}")}) }
            }
            14 => json!({"k":"api","op":"remove","key":ki}),
            15 => json!({"k":"api","op":"remove_hash","addr":{"val":vi,"algo":"sha256"}}),
            16 => json!({"k":"api","op":"remove_opts","fully":true,"key":ki}),
            17 => json!({"k":"api","op":"clear"}),
            18 => json!({"k":"api","op":"find","key":ki}),
            _ => json!({"k":"api","op":"read","addr":{"val":vi,"algo":"sha256"}}),
        };
        let mut st = st;
        if link && rng.chance(1, 4) {
            st = match rng.below(3) {
                0 => json!({"k":"api","op":"remove_hash","addr":{"val":2,"algo":"sha256"}}),
                1 => json!({"k":"api","op":"remove_opts","fully":true,"key":nk - 1}),
                _ => json!({"k":"api","op":"read","key":nk - 1}),
            };
        }
        st["mode"] = json!(if st["op"] == "list" { "sync" } else { f.1 });
        steps.push(st);
    }
    let style = *rng.pick(&["plain", "plain", "trailing_slash", "dotted", "dotdot", "odd_cache"]);
    let faults: Vec<Value> = if rng.chance(1, 2) { vec![json!({"client":0,"at":rng.below(40),"action":{"a":"errno","e":*rng.pick(&[libc::EIO, libc::EACCES, libc::ENOSPC])}})] } else { vec![] };
    let oracle = if faults.is_empty() { "strict" } else { "fault" };
    json!({"keys":keys,"vals":vals,"cache_style":style,"prelude":prelude,"clients":[{"bin":f.0,"steps":steps}],"post":[],
           "plan":{"kind":"single","faults":faults,"schedule":{"policy":"first"}},"oracle":oracle,"lenient_after_fault":true})
}

fn gen_c07(rng: &mut Rng, r: u64, tier: &str) -> Value {
    let keys = vec!["shared".to_string(), "other".to_string()];
    let vals = vec![json!({"seed": rng.next_u64() >> 1, "len": *rng.pick(&[0u64, 5, 300, 9000])}), json!({"seed": rng.next_u64() >> 1, "len": *rng.pick(&[6u64, 40, 2000])}), json!({"seed": rng.next_u64() >> 1, "len": 17})];
    let mut prelude = Vec::new();
    match rng.below(4) {
        0 => {}
        1 => prelude.push(json!({"k":"api","op":"write","entry":"write","key":0,"val":2,"bin":"sync","mode":"sync"})),
        2 => {
            prelude.push(json!({"k":"api","op":"write","entry":"write","key":0,"val":2,"bin":"sync","mode":"sync"}));
            prelude.push(json!({"k":"api","op":"write","entry":"write","key":1,"val":0,"bin":"astd","mode":"async"}));
        }
        _ => prelude.push(json!({"k":"api","op":"write","entry":"write","val":0,"bin":"tokio","mode":"async"})),
    }
    let bulky = rng.chance(1, 16);
    if bulky {
        // the shared key already has a long history: its bucket is tens to hundreds of KiB before the clients start
        // (any size-triggered behaviour of the index code - compaction, rotation, buffering - is then due at some
        // insert; lengths and counts vary so that it is sometimes the insert of one of the clients)
        let (pad, lo, hi) = *rng.pick(&[(9000usize, 8u64, 24u64), (1500, 20, 60), (30000, 2, 9), (70000, 1, 5), (70000, 1, 5)]);
        let n = rng.range(lo, hi);
        let fp = *rng.pick(&PURE);
        for i in 0..n {
            prelude.push(json!({"k":"api","op":"write","entry":"opts","key":0,"val":2,"opts":{"time":(10 + i).to_string(),"meta":{"pad":pad_text(rng, pad)}},"bin":fp.0,"mode":fp.1}));
        }
    }
    let nclients = if !bulky && rng.chance(1, 4) { 3 } else { 2 };
    let mut clients = Vec::new();
    for ci in 0..nclients {
        let f = flav(rng);
        let vi = if rng.chance(2, 3) { 0 } else { 1 };
        // with a long history: one client writes or removes the key, the others look at it
        let pickop = if bulky { if ci == 0 { *rng.pick(&[0u64, 1, 9]) } else { *rng.pick(&[6u64, 8, 8, 11, 0]) } } else { rng.below(12) };
        let st = match pickop {
            0..=3 => {
                // writers of the same key (different or identical content)
                let mut w = json!({"k":"api","op":"write","entry":*rng.pick(&["write","opts","create"]),"key":0,"val":vi});
                if w["entry"] == "opts" {
                    w["opts"] = json!({"time": (100 + ci).to_string(), "meta": {"by": ci}});
                    if rng.chance(1, 4) {
                        // one record larger than a page / than the usual 8 KiB and 64 KiB buffers
                        let n = *rng.pick(&[5000usize, 9000, 20000, 70000]);
                        w["opts"]["meta"]["pad"] = json!(pad_text(rng, n));
                    }
                }
                w
            }
            4 => json!({"k":"api","op":"write","entry":"write","key":1,"val":0}), // different key, identical content
            5 => json!({"k":"api","op":"write","entry":"write","val":0}),
            6 => json!({"k":"api","op":"read","key":0}),
            7 => json!({"k":"api","op":"read","addr":{"val":0,"algo":"sha256"}}),
            8 => json!({"k":"api","op":"metadata","key":0}),
            9 => json!({"k":"api","op":"remove","key":0}),
            10 => json!({"k":"api","op":*rng.pick(&["remove_hash","remove_hash","exists"]),"addr":{"val":0,"algo":"sha256"}}),
            _ if bulky => json!({"k":"api","op":"list"}),
            _ => json!({"k":"api","op":*rng.pick(&["list","remove_hash"]),"addr":{"val":0,"algo":"sha256"}}),
        };
        let mut st = st;
        st["mode"] = json!(if st["op"] == "list" { "sync" } else { f.1 });
        clients.push(json!({"bin":f.0,"steps":[st]}));
    }
    let mut observe = Vec::new();
    for k in 0..2 {
        observe.push(json!({"k":"api","op":"metadata","key":k,"bin":"sync","mode":"sync"}));
        observe.push(json!({"k":"api","op":"read","key":k,"bin":"astd","mode":"async"}));
    }
    for vi in 0..3 {
        observe.push(json!({"k":"api","op":"exists","addr":{"val":vi,"algo":"sha256"},"bin":"tokio","mode":"async"}));
        observe.push(json!({"k":"api","op":"read","addr":{"val":vi,"algo":"sha256"},"bin":"sync","mode":"sync"}));
    }
    observe.push(json!({"k":"api","op":"list","bin":"sync","mode":"sync"}));
    let policy = if tier == "quick" { *rng.pick(&["random", "random", "pct"]) } else { *rng.pick(&["random", "pct", "pct"]) };
    if bulky {
        // at every point of one client's call sequence the other client runs from start to end
        return json!({"keys":keys,"vals":vals,"prelude":prelude,"clients":clients,"post":[],"final_observe":observe,"check_partial_records":true,
               "plan":{"kind":"enumerate_switches","cap":60,"b_full":true},"oracle":"serial"});
    }
    if nclients == 2 && r % 24 == 3 {
        // at every point of one client's call sequence the other client runs from start to end (both orders)
        return json!({"keys":keys,"vals":vals,"prelude":prelude,"clients":clients,"post":[],"final_observe":observe,"check_partial_records":true,
               "plan":{"kind":"enumerate_switches","cap":60,"b_full":true},"oracle":"serial"});
    }
    if nclients == 2 && r % (if tier == "quick" { 250 } else { 300 }) == 7 {
        return json!({"keys":keys,"vals":vals,"prelude":prelude,"clients":clients,"post":[],"final_observe":observe,"check_partial_records":true,
               "plan":{"kind":"enumerate_switches","cap": if tier == "quick" { 24 } else { 40 }},"oracle":"serial"});
    }
    json!({"keys":keys,"vals":vals,"prelude":prelude,"clients":clients,"post":[],"final_observe":observe,"check_partial_records":true,
           "plan":{"kind":"single","faults":[],"schedule":{"policy":policy,"seed":rng.next_u64() >> 1,"depth":rng.range(1,3),"horizon":rng.range(10,60)}},"oracle":"serial"})
}

/// Start-up self-test of the seams: an injected EIO on a known data write must surface in the worker as an
/// I/O error with raw OS error 5, and a kill before the publishing rename must leave no content file.
pub fn selftest(workers: &Path, scratch: &Path) -> Result<String, String> {
    let mut ctx = Ctx::new(workers, scratch);
    let sc = json!({
        "check":"C13","tier":"quick","keys":["selftest"],"vals":[{"seed":99,"len":64}],"clock0":"1700000000000",
        "prelude":[],"clients":[{"bin":"sync","steps":[{"k":"api","op":"write","entry":"write","key":0,"val":0,"mode":"sync"}]}],
        "post":[],"plan":{"kind":"single","faults":[],"schedule":{"policy":"first"}},"oracle":"fault"
    });
    let census = run_plan(&mut ctx, &sc, &json!({"faults":[],"schedule":{"policy":"first"}}), "st0");
    if let Some(h) = census.harness {
        return Err(format!("census failed: {h}"));
    }
    // the seam test must not depend on how the tree under test happens to write: take the first data-carrying
    // write under the scenario root, whatever file it goes to
    let w = match census.events.iter().find(|e| e.sys.data_write && e.sys.len.unwrap_or(0) >= 20) {
        Some(w) => w.clone(),
        None => return Ok("no data write in the census of a keyed write: seam self-test skipped".into()),
    };
    // errno
    let plan = json!({"faults":[{"client":0,"at":w.ord,"action":{"a":"errno","e":5}}],"schedule":{"policy":"first"}});
    let ex = exec_traced(&mut ctx, &sc, &plan, "st1");
    let delivered = ex.sub.events.iter().any(|e| e.ord == w.ord && e.ret == -5);
    let _ = finish_exec(ex, &sc);
    if !delivered {
        return Err("injected EIO was not delivered as the result of the system call".into());
    }
    // short write
    let plan = json!({"faults":[{"client":0,"at":w.ord,"action":{"a":"short","k":10}}],"schedule":{"policy":"first"}});
    let ex = exec_traced(&mut ctx, &sc, &plan, "st2");
    let short_seen = ex.sub.events.iter().any(|e| e.ord == w.ord && e.ret == 10);
    let _ = finish_exec(ex, &sc);
    if !short_seen {
        return Err("shortened write did not return the shortened count".into());
    }
    // kill before that write: the client dies without a result and the write never happens
    let plan = json!({"faults":[{"client":0,"at":w.ord,"action":{"a":"kill_entry"}}],"schedule":{"policy":"first"}});
    let ex = exec_traced(&mut ctx, &sc, &plan, "st3");
    let no_result = ex.sub.results.get(0).and_then(|v| v.get(0)).cloned().flatten().is_none();
    let never_ran = ex.sub.events.iter().any(|e| e.ord == w.ord && e.ret == -9999);
    let _ = finish_exec(ex, &sc);
    if !no_result || !never_ran {
        return Err(format!("kill at a system-call entry: result present={} call suppressed={}", !no_result, never_ran));
    }
    Ok("errno, short write and kill injection verified".into())
}

// ------------------------------------------------------------------------------------------ sysim families used by opsim checks
/// reflink through the FICLONE stub (C18 / C01), abandoned async writers with their background threads under the
/// scheduler (C14), concurrent writers of identical content (C16).
pub fn generate_family(family: &str, id: &str, tier: &str, rng: &mut Rng) -> Value {
    let mut sc = match family {
        "reflink" => gen_reflink(rng),
        "abandon" => gen_abandon(rng),
        "abandon-chunk" => gen_abandon_chunk(rng),
        "own-writes" => gen_own_writes(rng),
        _ => gen_same_content(rng, tier),
    };
    if family == "abandon-chunk" && id == "C20" {
        // the panic is in write_all (it trusts the count it is given)
        sc["clients"][0]["steps"][0]["write_all"] = json!(true);
    }
    sc["check"] = json!(id);
    sc["tier"] = json!(tier);
    sc["engine"] = json!("sysim");
    sc["family"] = json!(family);
    if sc.get("clock0").is_none() {
        sc["clock0"] = json!((1_500_000_000_000u64 + rng.below(1 << 39)).to_string());
    }
    sc
}

fn gen_reflink(rng: &mut Rng) -> Value {
    let keys = vec!["linked".to_string(), "other".to_string(), "never".to_string()];
    let vals = vec![json!({"seed": rng.next_u64() >> 1, "len": *rng.pick(&[0u64, 1, 300, 5000, 70_000, 1048577])}), json!({"seed": rng.next_u64() >> 1, "len": 44})];
    let algo = *rng.pick(&ALGOS);
    let mut prelude = vec![
        json!({"k":"api","op":"write","entry":"write_algo","algo":algo,"key":0,"val":0,"bin":"sync","mode":"sync"}),
        json!({"k":"api","op":"write","entry":"write_algo","algo":algo,"key":1,"val":1,"bin":"sync","mode":"sync"}),
    ];
    let c0 = json!({"val":0,"algo":algo});
    let c1 = json!({"val":1,"algo":algo});
    match rng.below(8) {
        0..=2 => {}
        3 => prelude.push(json!({"k":"env","act":"flip_frac","content":c0,"num":rng.below(1000),"bit":rng.below(8)})),
        4 => prelude.push(json!({"k":"env","act":"truncate_frac","content":c0,"num":rng.below(1000)})),
        5 => prelude.push(json!({"k":"env","act":"replace_with","content":c0,"target_content":c1})),
        6 => prelude.push(json!({"k":"env","act":"extend","content":c0,"n":3,"seed":5})),
        _ => prelude.push(json!({"k":"env","act":"delete","content":c0})),
    }
    let f = flav(rng);
    let mut steps = Vec::new();
    let n = rng.range(1, 4);
    for i in 0..n {
        let op = *rng.pick(&["reflink", "reflink", "reflink_unchecked"]);
        let mut st = json!({"k":"api","op":op,"to":format!("$O/r{i}"),"mode":f.1});
        match rng.below(6) {
            0 => st["key"] = json!(2),
            1 | 2 => st["addr"] = c0.clone(),
            _ => st["key"] = json!(0),
        }
        if rng.chance(1, 6) {
            prelude.push(json!({"k":"env","act":"write_file","path":format!("$O/r{i}"),"hex":"aabbcc"}));
        }
        steps.push(st);
    }
    json!({"keys":keys,"vals":vals,"prelude":prelude,"clients":[{"bin":f.0,"steps":steps}],"post":[],"emulate_ficlone":true,
           "plan":{"kind":"single","faults":[],"schedule":{"policy":"first"}},"oracle":"strict"})
}

fn gen_abandon(rng: &mut Rng) -> Value {
    let keys = vec!["kept".to_string(), "abandoned".to_string()];
    let vals = vec![json!({"seed": rng.next_u64() >> 1, "len": *rng.pick(&[0u64, 9, 3000, 70_000, 1048577])}), json!({"seed": rng.next_u64() >> 1, "len": 21})];
    let len = vals[0]["len"].as_u64().unwrap_or(0);
    let f = *rng.pick(&[("astd", "async"), ("tokio", "async"), ("sync", "sync")]);
    let prelude = vec![json!({"k":"api","op":"write","entry":"write","key":0,"val":1,"bin":"sync","mode":"sync"})];
    let mut steps = Vec::new();
    let n = rng.range(1, 3);
    for _ in 0..n {
        let mut o = json!({});
        let mut st = json!({"k":"api","op":"write","entry":"opts","val":0,"mode":f.1});
        if rng.chance(3, 4) {
            st["key"] = json!(1);
        }
        let chunks = chunking(rng, len).unwrap_or(vec![len]);
        match rng.below(5) {
            0 => {
                st["end"] = json!("drop");
                st["stop_after"] = json!(rng.range(0, chunks.len() as u64));
            }
            1 | 2 => st["end"] = json!(if f.1 == "async" { "pending_drop" } else { "drop" }),
            3 => {
                st["end"] = json!(if f.1 == "async" { "close_drop" } else { "drop" });
            }
            _ => o["size"] = json!(len + (1 << 20) + 7),
        }
        st["chunks"] = json!(chunks);
        st["opts"] = o;
        steps.push(st);
        // other successful operations interleave with the abandoned writer's background work
        if rng.chance(1, 2) {
            steps.push(json!({"k":"api","op":"read","key":0,"mode":f.1}));
        }
        if rng.chance(1, 3) {
            steps.push(json!({"k":"api","op":"write","entry":"write","key":0,"val":1,"mode":f.1}));
        }
    }
    let mut post = Vec::new();
    for fl in PURE {
        post.push(json!({"k":"audit","bin":fl.0,"mode":fl.1,"what":["metadata","read","list"]}));
    }
    if f.1 == "async" && rng.chance(1, 3) {
        // cancellation: the future of a whole call (one-shot write, streamed write + commit, removal) is dropped after k polls
        let mut st = match rng.below(4) {
            0 => json!({"k":"api","op":"remove","key":0,"mode":"async"}),
            1 => json!({"k":"api","op":"write","entry":"opts","key":*rng.pick(&[0, 1]),"val":0,"mode":"async","opts":{"meta":{"c":1}},"chunks":chunking(rng, len).unwrap_or(vec![len])}),
            _ => json!({"k":"api","op":"write","entry":*rng.pick(&["write","write_algo"]),"key":*rng.pick(&[0, 1]),"val":0,"mode":"async"}),
        };
        st["cancel_polls"] = json!(rng.range(1, 14));
        // (the oracle settles the cancelled call by looking at its key afterwards: the follow-up uses the other key)
        let other = if st["key"] == json!(1) { 0 } else { 1 };
        let mut steps2 = vec![st];
        if rng.chance(1, 2) {
            steps2.push(json!({"k":"api","op":"write","entry":"write","key":other,"val":1,"mode":"async"}));
        }
        return json!({"keys":keys,"vals":vals,"prelude":prelude,"clients":[{"bin":f.0,"steps":steps2}],"post":post,"strict_tmp":true,
               "plan":{"kind":"single","faults":[],"schedule":{"policy":"first"}},"oracle":"strict"});
    }
    if rng.chance(1, 8) {
        // a commit that fails because of an I/O error is also a writer that is gone: one keyed write, one errno somewhere in it
        let st = json!({"k":"api","op":"write","entry":*rng.pick(&["write","opts","create"]),"key":1,"val":0,"mode":f.1,"opts":{}});
        if rng.chance(1, 2) {
            // the same process goes on to write another key: nothing of the failed commit may ride along
            let next = json!({"k":"api","op":"write","entry":*rng.pick(&["write","opts"]),"key":0,"val":1,"mode":f.1,"opts":{}});
            return json!({"keys":keys,"vals":vals,"prelude":prelude,"clients":[{"bin":f.0,"steps":[st, next]}],"post":post,"strict_tmp":true,
                   "plan":{"kind":"enumerate","mode":"errno","victim_op":0,"no_persist":true},"oracle":"fault"});
        }
        return json!({"keys":keys,"vals":vals,"prelude":prelude,"clients":[{"bin":f.0,"steps":[st]}],"post":post,"strict_tmp":true,
               "plan":{"kind":"enumerate","mode":"errno"},"oracle":"fault"});
    }
    json!({"keys":keys,"vals":vals,"prelude":prelude,"clients":[{"bin":f.0,"steps":steps}],"post":post,"strict_tmp":true,
           "plan":{"kind":"single","faults":[],"schedule":{"policy":"first"}},"oracle":"strict"})
}

/// One write future of a streaming async writer is dropped after a single poll (timeout / select!), the caller goes on
/// with shorter buffers and commits. Under the scheduler the dropped write's background system call is still parked at
/// the moment of the drop, so the sequence is the same in every execution.
fn gen_abandon_chunk(rng: &mut Rng) -> Value {
    let keys = vec!["kept".to_string(), "streamed".to_string()];
    // (a declared size of 1 MiB or less maps the temp file: its writes are memory copies the scheduler does not see,
    // so the declared-size variant uses a value above that and a short abandoned chunk)
    let sized = rng.chance(1, 4);
    let len = if sized { 1_300_000 } else { *rng.pick(&[40u64, 3000, 70_000, 300_000]) };
    let vals = vec![json!({"seed": rng.next_u64() >> 1, "len": len}), json!({"seed": rng.next_u64() >> 1, "len": 21})];
    let f = *rng.pick(&[("astd", "async"), ("tokio", "async")]);
    let prelude = vec![json!({"k":"api","op":"write","entry":"write","key":0,"val":1,"bin":"sync","mode":"sync"})];
    // [lead-in?, the abandoned (large) chunk, then short ones]
    let mut chunks: Vec<u64> = Vec::new();
    let mut left = len;
    if rng.chance(1, 3) {
        let n = rng.range(1, 8).min(left - 20);
        chunks.push(n);
        left -= n;
    }
    let ai = chunks.len();
    // the abandoned chunk is the large one (what follows is shorter), or a short one followed by one long buffer
    let big = if !sized && rng.chance(2, 3) { rng.range(left / 2, left - 10) } else { rng.range(1, 16).min(left - 20) };
    chunks.push(big);
    left -= big;
    if big < 20 {
        chunks.push(left);
        left = 0;
    }
    while left > 0 {
        let n = rng.range(1, 5).min(left);
        chunks.push(n);
        left -= n;
        if chunks.len() > 6 {
            chunks.push(left);
            break;
        }
    }
    let chunks: Vec<u64> = chunks.into_iter().filter(|n| *n > 0).collect();
    let chunks_for_size = chunks.clone();
    let mut st = json!({"k":"api","op":"write","entry":*rng.pick(&["opts","create"]),"val":0,"mode":"async","chunks":chunks,"abandon_chunks":[ai],"opts":{}});
    if rng.chance(3, 4) {
        st["key"] = json!(1);
    } else {
        st["entry"] = json!("opts");
    }
    if rng.chance(1, 2) {
        st["write_all"] = json!(true);
    }
    if rng.chance(1, 3) {
        // the caller flushes right after giving up on the write
        st["flush_after"] = json!([ai]);
    }
    if sized {
        // the declared size is what the writer is going to acknowledge: everything but the abandoned chunk
        st["opts"]["size"] = json!(len - chunks_for_size[ai]);
        st["entry"] = json!("opts");
    }
    let mut steps = vec![st];
    if rng.chance(1, 2) {
        steps.push(json!({"k":"api","op":"read","key":0,"mode":"async"}));
    }
    if rng.chance(1, 2) {
        steps.push(json!({"k":"api","op":"write","entry":"write","key":0,"val":1,"mode":"async"}));
    }
    let mut post = Vec::new();
    for fl in PURE {
        post.push(json!({"k":"audit","bin":fl.0,"mode":fl.1,"what":["metadata","read","list"]}));
    }
    json!({"keys":keys,"vals":vals,"prelude":prelude,"clients":[{"bin":f.0,"steps":steps}],"post":post,"strict_tmp":true,
           "plan":{"kind":"single","faults":[],"schedule":{"policy":"first"}},"oracle":"strict"})
}

/// One async client reads back what it has itself just written or removed, with the runtime's pool threads under the
/// scheduler: a system call that a call left behind on a pool thread (unflushed append, unlink in a destructor) is
/// still parked when the next call starts, and the schedule decides which goes first. An acknowledged write / removal
/// must be visible to the caller's next call in every such schedule.
fn gen_own_writes(rng: &mut Rng) -> Value {
    let keys = vec!["k".to_string(), "other".to_string()];
    let vals = vec![json!({"seed": rng.next_u64() >> 1, "len": *rng.pick(&[0u64, 11, 5000])}), json!({"seed": rng.next_u64() >> 1, "len": 23})];
    let f = *rng.pick(&[("tokio", "async"), ("tokio", "async"), ("astd", "async")]);
    let mut steps = Vec::new();
    let mut present = false;
    let n = rng.range(2, 5);
    for _ in 0..n {
        let st = if !present || rng.chance(1, 2) {
            present = true;
            let entry = *rng.pick(&["write", "create", "opts", "write_algo"]);
            let mut w = json!({"k":"api","op":"write","entry":entry,"key":0,"val":rng.below(2),"mode":"async"});
            if entry == "write_algo" {
                w["algo"] = json!("sha256");
            }
            if entry == "opts" {
                w["opts"] = json!({"meta":{"n":rng.below(100)}});
            }
            w
        } else {
            present = false;
            if rng.chance(1, 3) { json!({"k":"api","op":"remove_opts","fully":true,"key":0,"mode":"async"}) } else { json!({"k":"api","op":"remove","key":0,"mode":"async"}) }
        };
        let wrote_val = if st["op"] == "write" { st["val"].as_u64() } else { None };
        steps.push(st);
        // looked at straight away by the same caller (async or sync entry points of the same process)
        let m = *rng.pick(&["async", "async", "sync"]);
        steps.push(match rng.below(7) {
            0 => json!({"k":"api","op":"read","key":0,"mode":m}),
            1 => json!({"k":"api","op":"list","mode":"sync"}),
            2 if wrote_val.is_some() => json!({"k":"api","op":"read","addr":{"val":wrote_val.unwrap_or(0),"algo":"sha256"},"mode":m}),
            3 if wrote_val.is_some() => json!({"k":"api","op":"exists","addr":{"val":wrote_val.unwrap_or(0),"algo":"sha256"},"mode":m}),
            4 => json!({"k":"api","op":"copy","key":0,"to":format!("$O/x{}", steps.len()),"mode":m}),
            _ => json!({"k":"api","op":"metadata","key":0,"mode":m}),
        });
        if rng.chance(1, 6) {
            // the content (or everything) is deleted and looked for / written again at once
            let a = json!({"val":rng.below(2),"algo":"sha256"});
            match rng.below(3) {
                0 => {
                    steps.push(json!({"k":"api","op":"remove_hash","addr":a,"mode":"async"}));
                    steps.push(json!({"k":"api","op":"exists","addr":a,"mode":m}));
                }
                1 => {
                    steps.push(json!({"k":"api","op":"clear","mode":"async"}));
                    present = false;
                    steps.push(json!({"k":"api","op":"list","mode":"sync"}));
                }
                _ => {
                    steps.push(json!({"k":"api","op":"write","entry":"write","val":1,"mode":"async"}));
                    steps.push(json!({"k":"api","op":"read","addr":{"val":1,"algo":"sha256"},"mode":m}));
                }
            }
        }
    }
    let mut post = Vec::new();
    for fl in PURE {
        post.push(json!({"k":"audit","bin":fl.0,"mode":fl.1,"what":["metadata","read","list"]}));
    }
    let sched = if rng.chance(1, 2) { json!({"policy":"first"}) } else { json!({"policy":*rng.pick(&["random","pct"]),"seed":rng.next_u64() >> 1,"depth":2,"horizon":40}) };
    json!({"keys":keys,"vals":vals,"prelude":[],"clients":[{"bin":f.0,"steps":steps}],"post":post,"strict_tmp":true,
           "plan":{"kind":"single","faults":[],"schedule":sched},"oracle":"strict"})
}

fn gen_same_content(rng: &mut Rng, tier: &str) -> Value {
    // two or three writers of identical content (same or different keys, different entry points and flavours) at once
    let keys = vec!["a".to_string(), "b".to_string()];
    let vals = vec![json!({"seed": rng.next_u64() >> 1, "len": *rng.pick(&[0u64, 5, 4000, 1048577])})];
    if rng.chance(1, if tier == "quick" { 6 } else { 3 }) {
        // one re-writer of content that is already stored against one reader of that address, under EVERY schedule
        // with at most two context switches: the stored copy must be readable at every instant
        let fw = flav(rng);
        let fr = flav(rng);
        let mut w = json!({"k":"api","op":"write","entry":*rng.pick(&["write","create","opts"]),"val":0,"mode":fw.1,"key":0});
        if w["entry"] == "opts" {
            w["opts"] = json!({"size": vals[0]["len"]});
        }
        let rd = if rng.chance(3, 4) { json!({"k":"api","op":"read","addr":{"val":0,"algo":"sha256"},"mode":fr.1}) } else { json!({"k":"api","op":"exists","addr":{"val":0,"algo":"sha256"},"mode":fr.1}) };
        let observe = vec![
            json!({"k":"api","op":"metadata","key":0,"bin":"sync","mode":"sync"}),
            json!({"k":"api","op":"read","key":0,"bin":"astd","mode":"async"}),
            json!({"k":"api","op":"read","addr":{"val":0,"algo":"sha256"},"bin":"sync","mode":"sync"}),
        ];
        return json!({"keys":keys,"vals":vals,"prelude":[{"k":"api","op":"write","entry":"write","key":1,"val":0,"bin":"sync","mode":"sync"}],
               "clients":[{"bin":fw.0,"steps":[w]},{"bin":fr.0,"steps":[rd]}],"post":[],"final_observe":observe,"check_partial_records":true,
               "plan":{"kind":"enumerate_switches","cap": if tier == "quick" { 18 } else { 60 }},"oracle":"serial"});
    }
    let mut prelude = Vec::new();
    if rng.chance(1, 2) {
        prelude.push(json!({"k":"api","op":"write","entry":"write","val":0,"bin":"sync","mode":"sync"}));
    }
    let n = rng.range(2, 3);
    let mut clients = Vec::new();
    for ci in 0..n {
        let f = flav(rng);
        let mut st = json!({"k":"api","op":"write","entry":*rng.pick(&["write","create","opts"]),"val":0,"mode":f.1});
        if rng.chance(3, 4) || st["entry"] == "create" {
            st["key"] = json!(ci % 2);
        }
        if st["entry"] == "opts" {
            st["opts"] = json!({"size": vals[0]["len"]});
        }
        clients.push(json!({"bin":f.0,"steps":[st]}));
    }
    if !prelude.is_empty() && rng.chance(2, 3) {
        // the content is already stored: a concurrent reader by address must find it whatever the re-writers do
        let f = flav(rng);
        let st = if rng.chance(3, 4) { json!({"k":"api","op":"read","addr":{"val":0,"algo":"sha256"},"mode":f.1}) } else { json!({"k":"api","op":"exists","addr":{"val":0,"algo":"sha256"},"mode":f.1}) };
        clients.push(json!({"bin":f.0,"steps":[st]}));
        if clients.len() > 3 {
            clients.remove(0);
        }
    }
    let observe = vec![
        json!({"k":"api","op":"metadata","key":0,"bin":"sync","mode":"sync"}),
        json!({"k":"api","op":"read","key":0,"bin":"astd","mode":"async"}),
        json!({"k":"api","op":"metadata","key":1,"bin":"sync","mode":"sync"}),
        json!({"k":"api","op":"read","key":1,"bin":"tokio","mode":"async"}),
        json!({"k":"api","op":"read","addr":{"val":0,"algo":"sha256"},"bin":"sync","mode":"sync"}),
    ];
    json!({"keys":keys,"vals":vals,"prelude":prelude,"clients":clients,"post":[],"final_observe":observe,"check_partial_records":true,
           "plan":{"kind":"single","faults":[],"schedule":{"policy":*rng.pick(&["random","pct"]),"seed":rng.next_u64() >> 1,"depth":2,"horizon":40}},"oracle":"serial"})
}
