// System-call level simulation (ptrace): placeholder until the engine lands.
use serde_json::Value;

use crate::checks::CheckSpec;
use crate::interp::{Ctx, Outcome};
use crate::prng::Rng;

pub fn spec(_id: &str) -> Option<CheckSpec> {
    None
}
pub fn exhaustive_count(_id: &str, _tier: &str) -> u64 {
    0
}
pub fn generate(_id: &str, _tier: &str, _r: u64, _rng: &mut Rng) -> Value {
    Value::Null
}
pub fn run_scenario(_ctx: &mut Ctx, _spec: &CheckSpec, _sc: &Value, _run_id: &str) -> Outcome {
    Outcome::default()
}
pub fn nontrivial(_id: &str, _sc: &Value, _out: &Outcome) -> bool {
    false
}
pub fn minimise(_ctx: &mut Ctx, _spec: &CheckSpec, sc: &Value, _sig: &str, _budget_s: u64) -> Value {
    sc.clone()
}
pub fn stubs(_id: &str) -> Vec<String> {
    Vec::new()
}
