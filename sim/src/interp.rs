// The operation-history engine ("opsim"): executes a scenario (symbolic steps) through the real
// library via the workers, applies storage faults between steps, and checks every observed result
// against a small reference model. One interpreter serves all history/fault properties; each check
// owns a subset of the violation classes.
use std::collections::{BTreeMap, BTreeSet};
use std::path::{Path, PathBuf};

use serde_json::{json, Value};

use crate::penc::{pdec, penc};
use crate::disk;
use crate::fmt::{self, Rec};
use crate::hash;
use crate::wk::Worker;

#[path = "../../common/datagen.rs"]
mod datagen;

pub fn datagen_public(seed: u64, len: usize) -> Vec<u8> {
    datagen::gen(seed, len)
}

#[derive(Clone, Debug)]
pub struct Viol {
    pub class: String,
    pub sig: String,
    pub msg: String,
    pub step: usize,
    pub scenario: Option<Value>, // explicit replayable scenario when it differs from the generated one (sysim sub-runs)
}

#[derive(Default)]
pub struct Outcome {
    pub viols: Vec<Viol>,
    pub log: Vec<Value>,
    pub faults: BTreeMap<String, u64>,
    pub probes: BTreeMap<String, u64>,
    pub steps: u64,
    pub harness: Option<String>,
    pub subruns: u64,          // simulated executions inside this run (sysim enumerations)
    pub sub_hashes: Vec<u64>,  // event-log hashes of the non-trivial sub-runs
}

pub struct Ctx {
    pub workers_dir: PathBuf,
    pub scratch: PathBuf,
    pub workers: BTreeMap<String, Worker>,
    pub worker_clock: BTreeMap<String, (u64, Option<u128>)>, // bin -> (spawn generation, clock set)
    pub keep_dirs: bool,
}

impl Ctx {
    pub fn new(workers_dir: &Path, scratch: &Path) -> Ctx {
        std::fs::create_dir_all(scratch).ok();
        Ctx { workers_dir: workers_dir.to_path_buf(), scratch: scratch.to_path_buf(), workers: BTreeMap::new(), worker_clock: BTreeMap::new(), keep_dirs: false }
    }
    pub fn worker(&mut self, bin: &str) -> &mut Worker {
        if !self.workers.contains_key(bin) {
            let w = Worker::new(&self.workers_dir, bin, &self.scratch);
            self.workers.insert(bin.to_string(), w);
        }
        self.workers.get_mut(bin).unwrap()
    }
}

#[derive(Clone, Debug, PartialEq)]
pub enum CState {
    Pristine,
    Missing,
    Damaged,
}

#[derive(Clone, Debug)]
pub struct Content {
    pub orig: Vec<u8>,
    pub state: CState,
    pub is_link: bool,
}

#[derive(Clone, Debug, PartialEq)]
pub struct Entry {
    pub key: String,
    pub sri: String,
    pub time: u128,
    pub size: u64,
    pub metadata: Value,
    pub raw: Option<Vec<u8>>,
}

impl Entry {
    pub fn from_rec(r: &Rec) -> Option<Entry> {
        Some(Entry { key: r.key.clone(), sri: r.integrity.clone()?, time: r.time, size: r.size, metadata: r.metadata.clone(), raw: r.raw.clone() })
    }
    pub fn to_rec(&self) -> Rec {
        Rec { key: self.key.clone(), integrity: Some(self.sri.clone()), time: self.time, size: self.size, metadata: self.metadata.clone(), raw: self.raw.clone() }
    }
}

#[derive(Clone, Default)]
pub struct Pre {
    pub dest: Option<FileState>,
    pub list: Option<BTreeMap<String, Rec>>,
    pub lib_list: Option<Value>, // what the library's own listing said before an abandoned writer (entries and error items)
}

#[derive(Clone, Default)]
pub struct Model {
    pub keys: BTreeMap<String, Option<Entry>>, // None = removed (tombstone) ; absent = never written
    pub content: BTreeMap<String, Content>,    // content rel path -> state
    pub inserted: Vec<Entry>,                  // every entry a successful insert wrote (for "verbatim" checks)
    pub records: BTreeMap<String, Vec<Rec>>,   // bucket rel -> records the reference writer would have appended
    pub foreign: bool,                         // environment planted records in foreign buckets: listing not compared
    pub index_faulted: bool,
    pub cleared: bool,
    pub cache_dir: bool, // the cache directory itself exists as far as the history tells (something was stored, or a clear succeeded, and nothing outside the library removed it since)
    pub index_dir: bool, // index-v5 exists as far as the history tells (an insert happened since the last clear)
}

pub struct Interp<'a> {
    pub ctx: &'a mut Ctx,
    pub sc: &'a Value,
    pub root: PathBuf,
    pub cache: PathBuf,
    pub cache_arg: String,
    pub out: Outcome,
    pub m: Model,
    pub clock: Option<u128>,
    pub data_cache: BTreeMap<usize, Vec<u8>>,
    pub cur_step: usize,
    pub strict_format: bool,
    pub lenient: bool,
    pub cwd: Option<PathBuf>,
    pub links: BTreeMap<PathBuf, Vec<String>>,   // link target path -> content rels that are symlinks to it
    pub targets: BTreeMap<PathBuf, Option<Vec<u8>>>, // files under $T as the environment last wrote them
    pub target_modes: BTreeMap<PathBuf, Option<u32>>, // ... and their permission bits
    pub dests: BTreeMap<PathBuf, Vec<u8>>, // what successful extractions delivered: the caller's files from then on
    pub pre_lib_list: Option<Value>,
    pub cache_dests: BTreeSet<String>, // names in the cache root that the scenario itself used as extraction destinations
    pub allow_tmp_leftovers: bool,
    pub deferred: bool, // results are judged after the whole program ran (sysim): no peeking at the directory as it is now
}

fn norm_algo(a: Option<&str>) -> &str {
    a.unwrap_or("sha256")
}

/// a size-limited tmpfs on `dir` (needs the privilege to mount; false when that is not available)
pub fn mount_tiny(dir: &Path, kb: u64) -> bool {
    use std::os::unix::ffi::OsStrExt;
    let d = match std::ffi::CString::new(dir.as_os_str().as_bytes()) {
        Ok(d) => d,
        Err(_) => return false,
    };
    let opts = std::ffi::CString::new(format!("size={}k,mode=0755", kb)).unwrap();
    let t = std::ffi::CString::new("tmpfs").unwrap();
    unsafe { libc::mount(t.as_ptr(), d.as_ptr(), t.as_ptr(), 0, opts.as_ptr() as *const libc::c_void) == 0 }
}

pub fn unmount_tiny(dir: &Path) {
    use std::os::unix::ffi::OsStrExt;
    if let Ok(d) = std::ffi::CString::new(dir.as_os_str().as_bytes()) {
        unsafe {
            libc::umount2(d.as_ptr(), libc::MNT_DETACH);
        }
    }
}

pub fn algo_rank(a: &str) -> u8 {
    match a {
        "sha512" => 0,
        "sha384" => 1,
        "sha256" => 2,
        "sha1" => 3,
        _ => 4,
    }
}

impl<'a> Interp<'a> {
    pub fn new(ctx: &'a mut Ctx, sc: &'a Value, run_id: &str) -> Interp<'a> {
        let style = sc.get("cache_style").and_then(|v| v.as_str()).unwrap_or("plain");
        // "odd_root": every path of the run (cache, destinations, link targets) has a component that is not valid UTF-8;
        // "odd_cache": only the cache directory's own name
        let root = if style == "odd_root" { ctx.scratch.join(pdec(&format!("r{run_id}-\u{f7fe}\u{f7c3}x"))) } else { ctx.scratch.join(format!("r{run_id}")) };
        unmount_tiny(&root.join("cache"));
        let _ = std::fs::remove_dir_all(&root);
        std::fs::create_dir_all(root.join("out")).ok();
        std::fs::create_dir_all(root.join("targets")).ok();
        let cache = if style == "odd_cache" { root.join(pdec("cache-\u{f7ff}\u{f7e9}")) } else { root.join("cache") };
        let cache_arg = match style {
            "trailing_slash" => format!("{}/", penc(&cache)),
            "dotted" => format!("{}/./cache", penc(&root)),
            "dotdot" => format!("{}/out/../cache", penc(&root)),
            _ => penc(&cache),
        };
        let odd = style.starts_with("odd");
        // "tiny_fs": the cache directory is its own, very small filesystem (a size-limited tmpfs): it really fills up,
        // in system calls and in page faults of mapped files alike
        let mut tiny = None;
        if style == "tiny_fs" {
            std::fs::create_dir_all(&cache).ok();
            let kb = sc.get("tiny_fs_kb").and_then(|v| v.as_u64()).unwrap_or(512);
            tiny = Some(mount_tiny(&cache, kb));
        }
        let mut it = Interp {
            ctx,
            sc,
            root,
            cache,
            cache_arg,
            out: Outcome::default(),
            m: Model::default(),
            clock: None,
            data_cache: BTreeMap::new(),
            cur_step: 0,
            strict_format: true,
            lenient: sc.get("lenient_model").and_then(|v| v.as_bool()).unwrap_or(false),
            cwd: None,
            links: BTreeMap::new(),
            targets: BTreeMap::new(),
            target_modes: BTreeMap::new(),
            dests: BTreeMap::new(),
            pre_lib_list: None,
            cache_dests: BTreeSet::new(),
            allow_tmp_leftovers: false,
            deferred: false,
        };
        if odd {
            it.probe("non_utf8_paths");
        }
        match tiny {
            Some(true) => {
                it.probe("tiny_fs_mounted");
                it.m.cache_dir = true;
            }
            Some(false) => it.probe("tiny_fs_unavailable"),
            None => {}
        }
        it
    }

    // ------------------------------------------------------------ bookkeeping
    pub fn viol(&mut self, class: &str, sig: String, msg: String) {
        self.out.viols.push(Viol { class: class.to_string(), sig, msg, step: self.cur_step, scenario: None });
    }
    pub fn fault(&mut self, kind: &str) {
        *self.out.faults.entry(kind.to_string()).or_insert(0) += 1;
    }
    pub fn probe(&mut self, name: &str) {
        *self.out.probes.entry(name.to_string()).or_insert(0) += 1;
    }

    pub fn subst(&self, s: &str) -> String {
        s.replace("$C", &penc(&self.cache)).replace("$O", &penc(&self.root.join("out"))).replace("$T", &penc(&self.root.join("targets"))).replace("$R", &penc(&self.root))
    }
    pub fn unsubst(&self, s: &str) -> String {
        s.replace(&penc(&self.root), "$R").replace(&self.root.display().to_string(), "$R")
    }

    pub fn key(&self, st: &Value) -> Option<String> {
        let k = st.get("key")?;
        if let Some(i) = k.as_u64() {
            return Some(self.sc["keys"][i as usize].as_str().unwrap_or("").to_string());
        }
        k.as_str().map(|s| s.to_string())
    }

    pub fn val(&mut self, vi: usize) -> Vec<u8> {
        if let Some(d) = self.data_cache.get(&vi) {
            return d.clone();
        }
        let v = &self.sc["vals"][vi];
        let d = if let Some(h) = v.get("hex").and_then(|h| h.as_str()) {
            hex::decode(h).unwrap_or_default()
        } else {
            datagen::gen(v["seed"].as_u64().unwrap_or(0), v["len"].as_u64().unwrap_or(0) as usize)
        };
        if d.len() <= 4 << 20 {
            self.data_cache.insert(vi, d.clone());
        }
        d
    }
    pub fn val_spec(&self, vi: usize) -> Value {
        let v = &self.sc["vals"][vi];
        if let Some(h) = v.get("hex") {
            json!({"h": h})
        } else {
            json!({"g": [v["seed"], v["len"]]})
        }
    }

    /// resolve an address spec to an sri string
    pub fn addr(&mut self, a: &Value) -> String {
        if let Some(r) = a.get("raw").and_then(|r| r.as_str()) {
            return r.to_string();
        }
        if let Some(multi) = a.get("multi").and_then(|m| m.as_array()) {
            let mut parts: Vec<String> = multi.clone().iter().map(|x| self.addr(x)).collect();
            parts.sort_by(|x, y| {
                let ax = x.split('-').next().unwrap_or("");
                let ay = y.split('-').next().unwrap_or("");
                algo_rank(ax).cmp(&algo_rank(ay)).then(x.cmp(y))
            });
            return parts.join(" ");
        }
        let vi = a["val"].as_u64().unwrap_or(0) as usize;
        let algo = norm_algo(a.get("algo").and_then(|x| x.as_str())).to_string();
        let d = self.val(vi);
        let s = hash::sri(&algo, &d);
        if a.get("wrong").and_then(|w| w.as_bool()) == Some(true) {
            // a well-formed digest of the right length that is not the digest of the data
            let mut d2 = d.clone();
            d2.push(0x5a);
            return hash::sri(&algo, &d2);
        }
        s
    }

    fn ensure_clock(&mut self, bin: &str) {
        let want = self.clock;
        let gen = self.ctx.worker(bin).spawns;
        let cur = self.ctx.worker_clock.get(bin).cloned();
        if cur == Some((gen, want)) && gen > 0 {
            return;
        }
        let op = match want {
            Some(ms) => json!({"op":"set_clock","ms":ms.to_string()}),
            None => json!({"op":"set_clock"}),
        };
        let _ = self.ctx.worker(bin).call(&op);
        let gen = self.ctx.worker(bin).spawns;
        self.ctx.worker_clock.insert(bin.to_string(), (gen, want));
    }

    pub fn call(&mut self, bin: &str, op: &Value) -> Value {
        self.ensure_clock(bin);
        self.out.steps += 1;
        let r = self.ctx.worker(bin).call(op);
        if r["r"] == "harness" {
            self.out.harness = Some(r["msg"].as_str().unwrap_or("worker failure").to_string());
        }
        r
    }

    // ------------------------------------------------------------ model helpers
    pub fn content_rel_of(&self, sri: &str) -> Option<String> {
        hash::content_rel(sri)
    }

    fn content_state(&self, sri: &str) -> Option<&Content> {
        let rel = hash::content_rel(sri)?;
        self.m.content.get(&rel)
    }

    fn model_put_content(&mut self, sri: &str, data: &[u8]) {
        if let Some(rel) = hash::content_rel(sri) {
            let e = self.m.content.entry(rel).or_insert(Content { orig: data.to_vec(), state: CState::Missing, is_link: false });
            // re-writing over an existing (possibly damaged) file: the library keeps the existing
            // file if persist conflicts, or replaces it; replacing is what rename does.
            e.orig = data.to_vec();
            e.state = CState::Pristine;
            e.is_link = false;
            self.m.cache_dir = true;
        }
    }

    fn model_insert(&mut self, e: Entry) {
        let rel = hash::bucket_rel(&e.key);
        self.m.records.entry(rel).or_default().push(e.to_rec());
        self.m.inserted.push(e.clone());
        self.m.keys.insert(e.key.clone(), Some(e));
        self.m.index_dir = true;
        self.m.cache_dir = true;
    }

    fn model_tombstone(&mut self, key: &str, time: u128) {
        let rel = hash::bucket_rel(key);
        self.m.records.entry(rel).or_default().push(Rec { key: key.to_string(), integrity: None, time, size: 0, metadata: Value::Null, raw: None });
        self.m.keys.insert(key.to_string(), None);
        self.m.index_dir = true;
        self.m.cache_dir = true;
    }

    pub fn expected_entry(&self, key: &str) -> Option<Entry> {
        self.m.keys.get(key).cloned().flatten()
    }

    /// After the environment touched a bucket file: the model becomes "what the undamaged records imply",
    /// computed by the simulator's own decoder.
    pub fn resync_keys_from_disk(&mut self, faulted: bool) {
        let d = disk::scan(&self.cache);
        let keys: Vec<String> = self.m.keys.keys().cloned().collect();
        for k in keys {
            let lines = d.bucket_lines(&k);
            let eff = fmt::effective(&lines, &k).and_then(|r| Entry::from_rec(&r));
            self.m.keys.insert(k, eff);
        }
        if faulted {
            self.m.index_faulted = true;
        }
    }

    // ------------------------------------------------------------ result classification helpers
    fn bad_result_detail(r: &Value) -> String {
        match r["r"].as_str().unwrap_or("?") {
            "panic" => format!("panic@{}", Self::panic_site(r["msg"].as_str().unwrap_or(""))),
            "hang" => "hang".to_string(),
            "died" => format!("died({})", r["status"].as_str().unwrap_or("")),
            "err" => format!("err:{}{}", r["v"].as_str().unwrap_or("?"), r["kind"].as_str().map(|k| format!("({k})")).unwrap_or_default()),
            "ok" => "ok".to_string(),
            x => x.to_string(),
        }
    }
    fn panic_site(msg: &str) -> String {
        // "... @ /repo/src/content/write.rs:119 [thread main]" -> "src/content/write.rs:119"
        let at = msg.rsplit(" @ ").next().unwrap_or("");
        let site = at.split(' ').next().unwrap_or("");
        match site.find("/src/") {
            Some(i) => site[i + 1..].to_string(),
            None => site.to_string(),
        }
    }
    fn is_abnormal(r: &Value) -> bool {
        matches!(r["r"].as_str(), Some("panic") | Some("hang") | Some("died")) || r.get("bg_panic").is_some()
    }
    fn flav(st: &Value) -> String {
        format!("{}-{}", st["bin"].as_str().unwrap_or("sync"), st["mode"].as_str().unwrap_or("sync"))
    }

    fn abnormal_check(&mut self, st: &Value, r: &Value) {
        // every call of every check runs under the panic catcher and the watchdog (class no-panic, owned by C20)
        if Self::is_abnormal(r) {
            let det = if r.get("bg_panic").is_some() && r["r"] != "panic" {
                format!("bgpanic@{}", Self::panic_site(r["bg_panic"].as_str().unwrap_or("")))
            } else {
                Self::bad_result_detail(r)
            };
            let op = st["op"].as_str().unwrap_or("?").to_string();
            self.viol("no-panic", format!("no-panic/{}/{}/{}", op, Self::flav(st), det), format!("step {} {}: {}", self.cur_step, op, r));
        }
    }

    fn entry_diff(exp: &Entry, obs: &Value) -> Vec<String> {
        let mut d = Vec::new();
        if obs["key"].as_str() != Some(&exp.key) {
            d.push("key".to_string());
        }
        if obs["sri"].as_str() != Some(&exp.sri) {
            d.push("sri".to_string());
        }
        if obs["time"].as_str() != Some(&exp.time.to_string()) {
            d.push("time".to_string());
        }
        if obs["size"].to_string() != exp.size.to_string() {
            d.push("size".to_string());
        }
        if fmt::value_text(&obs["metadata"]) != fmt::value_text(&exp.metadata) {
            d.push("metadata".to_string());
        }
        let oraw = obs["raw"].as_str().map(|h| hex::decode(h).unwrap_or_default());
        if oraw != exp.raw {
            d.push("raw_metadata".to_string());
        }
        d
    }

    // ------------------------------------------------------------ step execution
    pub fn run(mut self) -> Outcome {
        let steps = self.sc["steps"].as_array().cloned().unwrap_or_default();
        self.begin();
        self.run_steps(&steps, 0);
        self.cur_step = steps.len();
        self.finish()
    }

    pub fn begin(&mut self) {
        self.clock = Some(1_700_000_000_000);
        if let Some(c) = self.sc.get("clock0").and_then(|c| c.as_str()) {
            self.clock = c.parse::<u128>().ok();
        }
    }

    pub fn run_steps(&mut self, steps: &[Value], base: usize) {
        for (i, st) in steps.iter().enumerate() {
            self.cur_step = base + i;
            if self.out.harness.is_some() {
                break;
            }
            match st["k"].as_str().unwrap_or("") {
                "api" => self.api_step(st),
                "env" => self.env_step(st),
                "clock" => {
                    self.clock = st["ms"].as_str().and_then(|c| c.parse::<u128>().ok());
                    self.fault("clock_set");
                }
                "audit" => self.audit(st),
                "chdir" => {
                    let p = self.subst(st["path"].as_str().unwrap_or("$R"));
                    self.chdir_all(&p);
                }
                _ => {}
            }
        }
    }

    /// cross-check of the simulator's decoder against the independent python implementation (tools/refimpl.py)
    fn python_crosscheck(&mut self) {
        let verif = std::env::var("VERIF_DIR").unwrap_or_else(|_| "/verif".into());
        let out = std::process::Command::new("python3").arg(format!("{verif}/tools/refimpl.py")).arg("dump").arg(&self.cache).output();
        let out = match out {
            Ok(o) if o.status.success() => o.stdout,
            _ => {
                self.probe("python_crosscheck_unavailable");
                return;
            }
        };
        let v: Value = match serde_json::from_slice(&out) {
            Ok(v) => v,
            Err(_) => {
                self.probe("python_crosscheck_unavailable");
                return;
            }
        };
        self.probe("python_crosscheck_done");
        let d = disk::scan(&self.cache);
        let mine = d.live_entries();
        let py = v["live"].as_object().cloned().unwrap_or_default();
        let mut diffs = Vec::new();
        for (k, r) in &mine {
            match py.get(k) {
                None => diffs.push(format!("key {:?}: python decoder does not see it", k)),
                Some(p) => {
                    if p["integrity"].as_str() != r.integrity.as_deref() || p["time"].as_str() != Some(&r.time.to_string()) || p["size"].as_str() != Some(&r.size.to_string()) {
                        diffs.push(format!("key {:?}: python {} vs simulator {:?}", k, p, r));
                    }
                    if !self.m.foreign && p["bucket"] != p["expected_bucket"] {
                        self.viol("format", "format/bucket-path-not-sha1-of-key".to_string(), format!("key {:?} lives in {} but the format places it at {}", k, p["bucket"], p["expected_bucket"]));
                    }
                }
            }
        }
        for k in py.keys() {
            if !mine.contains_key(k) {
                diffs.push(format!("key {:?}: only the python decoder sees it", k));
            }
        }
        for cf in &d.content {
            if let Some(ok) = v["content"].get(&cf.rel).and_then(|x| x.as_bool()) {
                if cf.kind == disk::FileKind::Regular && ok != cf.digest_ok {
                    diffs.push(format!("content {}: python digest check {} vs simulator {}", cf.rel, ok, cf.digest_ok));
                }
            }
        }
        if !diffs.is_empty() {
            self.viol("format", "format/python-refimpl-differs".to_string(), format!("two independent decoders disagree about this cache: {}", diffs.join("; ")));
        }
    }

    pub fn finish(mut self) -> Outcome {
        if !self.lenient {
            self.final_checks();
        }
        if self.sc.get("xcheck").and_then(|x| x.as_bool()) == Some(true) && self.out.harness.is_none() {
            self.python_crosscheck();
        }
        if self.cwd.is_some() {
            let p = self.ctx.scratch.display().to_string();
            self.chdir_all(&p);
            self.cwd = None;
        }
        if self.sc.get("cache_style").and_then(|v| v.as_str()) == Some("tiny_fs") {
            unmount_tiny(&self.cache);
        }
        if !self.ctx.keep_dirs {
            let _ = std::fs::remove_dir_all(&self.root);
        }
        self.out
    }

    fn chdir_all(&mut self, p: &str) {
        for bin in ["sync", "astd", "tokio"] {
            let _ = self.ctx.worker(bin).call(&json!({"op":"env","act":"chdir","path":p}));
        }
        self.cwd = Some(pdec(p));
    }

    fn log_step(&mut self, st: &Value, r: &Value) {
        let mut r2 = r.clone();
        // strip volatile text (messages contain absolute paths and OS wording)
        if let Some(o) = r2.as_object_mut() {
            o.remove("msg");
            o.remove("ctx");
            o.remove("was_pending"); // depends on real thread timing
            if let Some(Value::Array(es)) = o.get_mut("entries") {
                // listing order is HashSet / readdir order: not part of the observable result
                es.sort_by_key(|e| e.to_string());
            }
            if let Some(Value::Array(es)) = o.get_mut("errs") {
                for e in es.iter_mut() {
                    if let Some(eo) = e.as_object_mut() {
                        eo.remove("msg");
                        eo.remove("ctx");
                    }
                }
            }
        }
        let s = self.unsubst(&json!({"s": st, "r": r2}).to_string());
        self.out.log.push(serde_json::from_str(&s).unwrap_or(Value::Null));
    }

    fn build_opts(&mut self, o: &Value) -> Value {
        let mut w = serde_json::Map::new();
        if let Some(a) = o.get("algo") {
            w.insert("algo".into(), a.clone());
        }
        if let Some(s) = o.get("size") {
            w.insert("size".into(), s.clone());
        }
        if let Some(i) = o.get("sri") {
            let s = self.addr(i);
            w.insert("sri".into(), json!(s));
        }
        if let Some(t) = o.get("time") {
            w.insert("time".into(), t.clone());
        }
        if let Some(m) = o.get("meta") {
            w.insert("meta".into(), m.clone());
        }
        if let Some(r) = o.get("raw") {
            w.insert("raw".into(), r.clone());
        }
        // options that are set first and then set again to the values above (the builder's last call counts)
        if let Some(f) = o.get("first") {
            if f.is_object() {
                let f2 = self.build_opts(f);
                w.insert("first".into(), f2);
            }
        }
        Value::Object(w)
    }

    /// Build the worker op for a symbolic step, and capture the pre-state some oracles need.
    pub fn prepare(&mut self, st: &Value) -> (String, Value, Pre) {
        let bin = st["bin"].as_str().unwrap_or("sync").to_string();
        let mode = st["mode"].as_str().unwrap_or("sync");
        let opname = st["op"].as_str().unwrap_or("").to_string();
        let mut op = serde_json::Map::new();
        op.insert("op".into(), json!(opname));
        op.insert("fl".into(), json!(mode));
        op.insert("cache".into(), json!(self.cache_arg));
        let key = self.key(st);
        if let Some(k) = &key {
            op.insert("key".into(), json!(k));
        }
        for f in ["entry", "algo", "chunks", "flush_after", "repoll", "stop_after", "end", "bufs", "check", "mid_after", "fully", "reads", "clock_at_commit", "cancel_polls", "abandon_chunks", "write_all", "vectored", "eof_reads", "to_end", "exact_first", "rm_at"] {
            if let Some(v) = st.get(f) {
                op.insert(f.into(), v.clone());
            }
        }
        if let Some(vi) = st.get("val").and_then(|v| v.as_u64()) {
            op.insert("data".into(), self.val_spec(vi as usize));
        }
        if let Some(i) = st.get("rm_key").and_then(|v| v.as_u64()) {
            op.insert("rm_key".into(), self.sc["keys"][i as usize].clone());
        }
        if let Some(a) = st.get("addr") {
            let s = self.addr(a);
            op.insert("sri".into(), json!(s));
        }
        if let Some(o) = st.get("opts") {
            let o2 = self.build_opts(o);
            op.insert("opts".into(), o2);
        }
        if let Some(t) = st.get("to").and_then(|t| t.as_str()) {
            op.insert("to".into(), json!(self.subst(t)));
        }
        if let Some(t) = st.get("target").and_then(|t| t.as_str()) {
            op.insert("target".into(), json!(self.subst(t)));
        }
        if let Some(t) = st.get("chdir_before_commit").and_then(|t| t.as_str()) {
            op.insert("chdir_before_commit".into(), json!(self.subst(t)));
        }
        if let Some(m) = st.get("mid") {
            let m2 = self.resolve_env(m);
            op.insert("mid".into(), m2);
        }
        let op = Value::Object(op);
        let dest = st.get("to").and_then(|t| t.as_str()).map(|t| file_state(&pdec(&self.subst(t))));
        let dropped = opname == "write" && matches!(st["end"].as_str(), Some("drop") | Some("pending_drop") | Some("close_drop"));
        let list = if dropped { Some(disk::scan(&self.cache).live_entries()) } else { None };
        // (only where results are judged at once: under the scheduler the listing would be taken before the program runs)
        let lib_list = if dropped && !self.deferred && !self.lenient { Some(self.library_listing()) } else { None };
        (bin, op, Pre { dest, list, lib_list })
    }

    pub fn api_step(&mut self, st: &Value) {
        let (bin, op, pre) = self.prepare(st);
        let r = self.call(&bin, &op);
        self.log_step(st, &r);
        if r["r"] == "harness" {
            return;
        }
        self.judge(st, &r, pre);
    }

    /// Judge an observed result of an API step against the model (and advance the model).
    pub fn judge(&mut self, st: &Value, r: &Value, pre: Pre) {
        let bin = st["bin"].as_str().unwrap_or("sync").to_string();
        let opname = st["op"].as_str().unwrap_or("").to_string();
        let key = self.key(st);
        let r = r.clone();
        let pre_dest = pre.dest;
        let pre_list = pre.list;
        self.pre_lib_list = pre.lib_list;
        if let Some(c) = st.get("clock_at_commit").and_then(|c| c.as_str()) {
            // the worker moved its own clock right before commit(); if the commit was reached the
            // simulated wall clock is now that instant. Either way re-sync the worker before its next call.
            let reached = r["r"] == "ok" && r.get("dropped").is_none() || r["phase"] == "commit";
            if reached && opname == "write" {
                self.clock = c.parse::<u128>().ok();
                self.fault("clock_jump_open_to_commit");
            }
            self.ctx.worker_clock.remove(&bin);
        }
        if r["r"] == "unsupported" {
            return;
        }
        self.abnormal_check(st, &r);
        if st.get("hostile").is_some() {
            self.probe("hostile_step");
            self.m.cache_dir = false;
        }

        if self.lenient {
            return;
        }
        match opname.as_str() {
            "write" => self.judge_write(st, &r, key.as_deref(), pre_list),
            "read" | "reader" => self.judge_read(st, &r, key.as_deref()),
            "copy" | "copy_unchecked" | "hard_link" | "hard_link_unchecked" | "reflink" | "reflink_unchecked" => self.judge_extract(st, &r, key.as_deref(), pre_dest.unwrap_or(FileState::Absent)),
            "metadata" | "find" => self.judge_lookup(st, &r, key.as_deref().unwrap_or("")),
            "exists" => self.judge_exists(st, &r),
            "list" | "ls" => self.judge_list(st, &r),
            "remove" | "index_delete" => self.judge_remove(st, &r, key.as_deref().unwrap_or("")),
            "remove_hash" => self.judge_remove_hash(st, &r),
            "remove_opts" => self.judge_remove_opts(st, &r, key.as_deref().unwrap_or("")),
            "clear" => self.judge_clear(st, &r),
            "index_insert" => self.judge_index_insert(st, &r, key.as_deref().unwrap_or("")),
            "link_to" => {
                self.judge_link_to(st, &r, key.as_deref());
                if let Some(d) = st.get("chdir_before_commit").and_then(|t| t.as_str()) {
                    if st["entry"] != "fn" {
                        let p = self.subst(d);
                        self.chdir_all(&p);
                        self.fault("cwd_change_open_to_commit");
                    }
                }
            }
            _ => {}
        }
    }

    // ------------------------------------------------------------ write
    fn judge_write(&mut self, st: &Value, r: &Value, key: Option<&str>, pre_list: Option<BTreeMap<String, Rec>>) {
        let vi = st["val"].as_u64().unwrap_or(0) as usize;
        let data = self.val(vi);
        let entry = st["entry"].as_str().unwrap_or("write").to_string();
        let opts = st.get("opts").cloned().unwrap_or(json!({}));
        let algo: String = match entry.as_str() {
            "write" | "create" => "sha256".to_string(),
            "write_algo" | "create_algo" => norm_algo(st.get("algo").and_then(|a| a.as_str())).to_string(),
            _ => norm_algo(opts.get("algo").and_then(|a| a.as_str())).to_string(),
        };
        let streamed = !matches!(entry.as_str(), "write" | "write_algo");
        if st.get("mid_deletes_bucket").and_then(|v| v.as_bool()) == Some(true) {
            // while the writer was open its key's bucket file was unlinked (what a full removal of the key by
            // somebody else does): by the time of the commit the key has no history
            if let Some(k) = key {
                self.m.records.remove(&hash::bucket_rel(k));
                self.m.keys.remove(k);
                self.fault("bucket.unlinked_while_writer_open");
            }
        }
        if st.get("abandon_chunks").and_then(|a| a.as_array()).map(|a| !a.is_empty()).unwrap_or(false) && st["mode"] == "async" {
            // some writes were given up after one poll: which of their bytes reached the file is up to the runtime.
            // Whatever the writer then reports must be self-consistent: the address it returns names a file holding
            // exactly the bytes of that address, and the key (if any) maps to it.
            self.probe("write_abandoned_mid_chunk");
            // a declared size that equals the number of bytes the writer acknowledged is a matching declaration
            if let (Some(sz), Some(acked)) = (opts.get("size").and_then(|x| x.as_u64()), r["acked"].as_u64()) {
                if sz == acked && r["r"] == "err" && r["v"] == "SizeMismatch" {
                    self.viol("commit-accept", format!("commit-accept/abandoned-chunk/{}/size-equals-acknowledged", Self::flav(st)), format!("the writer acknowledged {} bytes, {} were declared, and the commit was rejected: {}", acked, sz, r));
                }
            }
            if r["v"] == "Bogus" {
                self.viol("write-ok", format!("write-ok/abandoned-chunk/{}/count-exceeds-buffer", Self::flav(st)), "after an earlier write future was dropped, write() reported more bytes than the buffer it was given (write_all panics on that)".to_string());
            }
            if r["r"] == "ok" {
                let got = r["sri"].as_str().unwrap_or("").to_string();
                let ok = hash::content_rel(&got).map(|rel| disk::check_content_file(&self.cache, &rel, disk::FileKind::Regular)).map(|cf| cf.digest_ok).unwrap_or(false);
                if !ok {
                    self.viol("content-integrity", format!("content-integrity/abandoned-chunk/{}", Self::flav(st)), format!("a writer whose earlier write future was dropped committed {} but the file at that address does not hold the bytes of that address", got));
                }
            }
            // the model continues from what is on disk
            let d = disk::scan(&self.cache);
            for cf in &d.content {
                if cf.digest_ok && cf.kind == disk::FileKind::Regular && !self.m.content.contains_key(&cf.rel) {
                    if let Ok(b) = std::fs::read(self.cache.join(&cf.rel)) {
                        self.m.content.insert(cf.rel.clone(), Content { orig: b, state: CState::Pristine, is_link: false });
                    }
                }
            }
            if let Some(k) = key {
                self.m.keys.entry(k.to_string()).or_insert(None);
                self.resync_keys_from_disk(false);
                self.strict_format = false;
            }
            return;
        }
        // bytes actually handed to the writer
        let chunks: Vec<usize> = match st.get("chunks").and_then(|c| c.as_array()) {
            Some(a) if streamed => a.iter().map(|x| x.as_u64().unwrap_or(0) as usize).collect(),
            _ => vec![data.len()],
        };
        let stop_after = st.get("stop_after").and_then(|v| v.as_u64()).map(|x| x as usize).unwrap_or(chunks.len());
        let mut written = 0usize;
        for (i, n) in chunks.iter().enumerate() {
            if i >= stop_after {
                break;
            }
            written = (written + n).min(data.len());
        }
        let wdata = &data[..written.min(data.len())];
        let computed = hash::sri(&algo, wdata);
        let end = st["end"].as_str().unwrap_or("commit");
        let flav = Self::flav(st);
        let shape = format!("{}{}{}{}", entry, if key.is_some() { "" } else { "-hash" }, if opts.get("size").is_some() { "+size" } else { "" }, if chunks.len() > 1 { "+chunks" } else { "" });

        if matches!(end, "drop" | "pending_drop" | "close_drop") && streamed {
            // C14: abandoned writer leaves no trace
            if r["r"] != "ok" {
                // an error while writing chunks is possible only through defects; owned by write-ok
                self.viol("write-ok", format!("write-ok/{}/{}/{}", shape, flav, Self::bad_result_detail(r)), format!("abandoned-writer sequence failed before the drop: {}", r));
            }
            if r["was_pending"] == json!(true) {
                self.probe("pending_then_drop");
            }
            if written > 0 {
                self.probe("abandoned_with_data");
            }
            self.check_no_trace(st, pre_list, "dropped");
            return;
        }

        // declared integrity / size -> expected verdict
        let declared = opts.get("sri").map(|a| self.addr(a));
        let mut integ_ok = true;
        let mut integ_ambiguous = false;
        if let Some(d) = &declared {
            let has_algo = d.split_whitespace().any(|h| h.starts_with(&format!("{}-", algo)));
            if !has_algo {
                // a digest of another algorithm than the writer computes. If it is a true digest of the data the
                // property text is silent (the library cannot verify it and rejects; accepting would be as correct);
                // if it is not a digest of the data, the data does not satisfy the declaration: must be rejected
                let true_digest = d.split_whitespace().any(|h| h.split_once('-').map(|(a, _)| hash::sri(a, wdata) == h).unwrap_or(false));
                if true_digest {
                    integ_ambiguous = true;
                } else {
                    integ_ok = false;
                }
            } else {
                integ_ok = d.split_whitespace().any(|h| h == computed);
            }
        }
        let declared_size = if matches!(entry.as_str(), "write" | "write_algo") {
            if key.is_none() { Some(data.len() as u64) } else { None }
        } else {
            opts.get("size").and_then(|s| s.as_u64())
        };
        let size_ok = declared_size.map(|s| s == written as u64).unwrap_or(true);

        let is_ok = r["r"] == "ok";
        let v = r["v"].as_str().unwrap_or("");
        if integ_ok && size_ok && !integ_ambiguous {
            if !is_ok {
                let cls = if declared.is_some() || (declared_size.is_some() && streamed) { "commit-accept" } else { "write-ok" };
                self.viol(cls, format!("{}/{}/{}/{}", cls, shape, flav, Self::bad_result_detail(r)), format!("write of {} B ({}) must succeed on a healthy filesystem but gave {}", written, algo, r));
                if self.m.cleared {
                    // "clearing leaves an empty, still usable cache": a write that fails after a clear of this history
                    self.viol("removal", format!("removal/unusable-after-clear/{}/{}", flav, Self::bad_result_detail(r)), format!("after a clear the cache must stay usable, but a write of {} B gave {}", written, r));
                }
                self.after_failed_write(st, key, pre_list);
                return;
            }
        } else if !integ_ambiguous {
            // must be rejected with the right variant
            let want: &[&str] = if !integ_ok && !size_ok { &["IntegrityError", "SizeMismatch"] } else if !integ_ok { &["IntegrityError"] } else { &["SizeMismatch"] };
            if is_ok || !want.contains(&v) {
                self.viol("commit-reject", format!("commit-reject/{}/{}/{}", shape, flav, Self::bad_result_detail(r)), format!("commit with mismatching declaration (integrity_ok={integ_ok} size_ok={size_ok}, declared size {:?}, written {}) must fail with {:?}, got {}", declared_size, written, want, r));
            } else if v == "SizeMismatch" && (r["a"].as_u64() != declared_size || r["b"].as_u64() != Some(written as u64)) {
                self.viol("commit-reject", format!("commit-reject/{}/{}/wrong-numbers", shape, flav), format!("SizeMismatch carries ({},{}) expected ({:?},{})", r["a"], r["b"], declared_size, written));
            }
            if !is_ok {
                self.probe("commit_rejected");
                // rejected commit: the key maps nothing new; content may have been published (allowed)
                if let Some(rel) = hash::content_rel(&computed) {
                    if self.cache.join(&rel).exists() {
                        self.model_put_content(&computed, wdata);
                        self.probe("rejected_commit_left_content");
                    }
                }
                self.check_no_trace(st, pre_list, "rejected");
                return;
            }
        } else if !is_ok {
            // ambiguous declaration: both outcomes accepted, but an Err must be the integrity error
            if v != "IntegrityError" && !(v == "SizeMismatch" && !size_ok) {
                self.viol("commit-reject", format!("commit-reject/{}/{}/{}", shape, flav, Self::bad_result_detail(r)), format!("unexpected failure kind {}", r));
            }
            if let Some(rel) = hash::content_rel(&computed) {
                if self.cache.join(&rel).exists() {
                    self.model_put_content(&computed, wdata);
                }
            }
            return;
        }
        // success path
        let got = r["sri"].as_str().unwrap_or("").to_string();
        let acceptable = got == computed || (declared.as_deref() == Some(got.as_str()) && key.is_some());
        if !acceptable {
            self.viol("address", format!("address/{}/{}/{}", shape, flav, algo), format!("write returned {} but the {} digest of the {} bytes written is {}", got, algo, written, computed));
        }
        self.model_put_content(&computed, wdata);
        if let Some(k) = key {
            let sri = declared.clone().unwrap_or(computed.clone());
            let time = match opts.get("time").and_then(|t| t.as_str()) {
                Some(t) => t.parse::<u128>().unwrap_or(0),
                None => self.clock.unwrap_or(0),
            };
            let size = match opts.get("size").and_then(|s| s.as_u64()) {
                Some(s) if streamed => s,
                _ => written as u64,
            };
            let e = Entry {
                key: k.to_string(),
                sri,
                time,
                size,
                metadata: if streamed { opts.get("meta").cloned().unwrap_or(Value::Null) } else { Value::Null },
                raw: if streamed { opts.get("raw").and_then(|h| h.as_str()).map(|h| hex::decode(h).unwrap_or_default()) } else { None },
            };
            self.model_insert(e);
        }
        if written > 1 << 20 {
            self.probe("value_over_mmap_threshold");
        }
        if declared_size.map(|s| s <= 1 << 20).unwrap_or(false) {
            self.probe("mmap_path_taken");
        }
    }

    fn after_failed_write(&mut self, _st: &Value, _key: Option<&str>, _pre: Option<BTreeMap<String, Rec>>) {
        // the model is left unchanged; reality may have stored content (harmless) - resync content presence lazily
    }

    /// keys listed (sorted) and the number of error items, through the sync flavour
    fn library_listing(&mut self) -> Value {
        let op = json!({"op":"list","fl":"sync","cache":self.cache_arg});
        let r = self.call("sync", &op);
        let mut keys: Vec<String> = r["entries"].as_array().map(|a| a.iter().filter_map(|e| e["key"].as_str().map(|s| s.to_string())).collect()).unwrap_or_default();
        keys.sort();
        json!({"keys": keys, "errs": r["errs"].as_array().map(|a| a.len()).unwrap_or(0), "r": r["r"]})
    }

    /// C14: after an abandoned / rejected writer nothing may change in lookups/listing, and tmp/ drains.
    fn check_no_trace(&mut self, st: &Value, pre_list: Option<BTreeMap<String, Rec>>, how: &str) {
        if self.deferred {
            return; // the end-of-run checks (tmp drained, decode == model) cover it
        }
        let flav = Self::flav(st);
        // wait (bounded real time; only ends the step) for background work of the dropped writer
        let tmp = self.cache.join("tmp");
        let mut left = Vec::new();
        for _ in 0..400 {
            left = list_dir(&tmp);
            if left.is_empty() {
                break;
            }
            std::thread::sleep(std::time::Duration::from_millis(5));
        }
        if !left.is_empty() {
            self.viol("abandon-trace", format!("abandon-trace/tmp-left/{}/{}", how, flav), format!("{} temp file(s) remain in tmp/ after a {} writer: {:?}", left.len(), how, left));
        }
        if !self.m.index_dir && !self.m.foreign && self.cache.join("index-v5").exists() && self.out.faults.keys().all(|k| !k.starts_with("bucket.") && !k.starts_with("fs.")) {
            // by the history there is no index yet (nothing was ever inserted, or the cache was cleared): a writer
            // that maps nothing has no business creating it (a listing of the cache changes from "no index" to "empty")
            self.viol("abandon-trace", format!("abandon-trace/index-dir-created/{}/{}", how, flav), format!("a {} writer created the index directory of a cache that had none", how));
            self.m.index_dir = true;
        }
        if let Some(before) = self.pre_lib_list.take() {
            // the library's own listing (entries and error items) is the same before and after
            let after = self.library_listing();
            if before != after {
                self.viol("abandon-trace", format!("abandon-trace/listing-changed/{}/{}", how, flav), format!("the listing was {} before the {} writer and is {} after it", before, how, after));
            }
        }
        if let Some(pre) = pre_list {
            let post = disk::scan(&self.cache).live_entries();
            if pre != post {
                self.viol("abandon-trace", format!("abandon-trace/index-changed/{}/{}", how, flav), format!("index changed by a {} writer", how));
            }
        }
    }

    // ------------------------------------------------------------ reads
    fn expected_content_for_key(&self, key: &str) -> Result<(String, Option<Content>), ()> {
        match self.expected_entry(key) {
            None => Err(()),
            Some(e) => {
                let c = self.content_state(&e.sri).cloned();
                Ok((e.sri, c))
            }
        }
    }

    fn judge_read(&mut self, st: &Value, r: &Value, key: Option<&str>) {
        if r["short"] == json!(true) {
            // the caller asked read_exact for more than the stream holds and stopped there: nothing was delivered
            return;
        }
        let flav = Self::flav(st);
        let op = st["op"].as_str().unwrap_or("read").to_string();
        let checked = st.get("check").and_then(|c| c.as_bool()) != Some(false);
        let (sri, content) = match key {
            Some(k) => match self.expected_content_for_key(k) {
                Err(()) => {
                    if !(r["r"] == "err" && r["v"] == "EntryNotFound") {
                        self.viol("lookup", format!("lookup/{}/{}/absent-key/{}", op, flav, Self::bad_result_detail(r)), format!("{} of a key with no live entry must fail with EntryNotFound, got {}", op, r));
                    }
                    return;
                }
                Ok(x) => x,
            },
            None => {
                let a = st.get("addr").cloned().unwrap_or(json!({}));
                let s = self.addr(&a);
                let c = self.content_state(&s).cloned();
                (s, c)
            }
        };
        let by = if key.is_some() { "key" } else { "addr" };
        let got_ok = r["r"] == "ok";
        let obs = if op == "reader" { &r["got"] } else { r };
        match content {
            None | Some(Content { state: CState::Missing, .. }) => {
                if got_ok || r["v"] != "IoError" {
                    if r["v"] == "EntryNotFound" && key.is_some() {
                        self.viol("lookup", format!("lookup/{}/{}/present-key/{}", op, flav, Self::bad_result_detail(r)), format!("{} by key: entry should be live ({}), got {}", op, sri, r));
                    } else {
                        self.viol("missing-content", format!("missing-content/{}/{}/{}/{}", op, by, flav, Self::bad_result_detail(r)), format!("{} of absent content {} must fail with an I/O error, got {}", op, sri, r));
                    }
                }
                if !got_ok {
                    self.probe("reader_saw_missing_content");
                }
            }
            Some(c) if c.state == CState::Pristine => {
                let want_len = c.orig.len() as u64;
                let want_sha = hash::sha256_hex(&c.orig);
                if !got_ok {
                    let cls = if r["v"] == "EntryNotFound" { "lookup" } else { "read-exact" };
                    self.viol(cls, format!("{}/{}/{}/{}/{}", cls, op, by, flav, Self::bad_result_detail(r)), format!("{} of intact content {} ({} B) must succeed, got {}", op, sri, want_len, r));
                } else if obs["len"].as_u64() != Some(want_len) || obs["sha"].as_str() != Some(&want_sha) {
                    self.viol("read-exact", format!("read-exact/{}/{}/{}/wrong-bytes", op, by, flav), format!("{} of {} returned {} B sha {} but {} B sha {} were stored", op, sri, obs["len"], obs["sha"], want_len, want_sha));
                }
            }
            Some(c) => {
                // damaged content: checked retrieval must fail or deliver exactly the original bytes
                self.probe("damaged_content_opened");
                if got_ok && checked {
                    let want_sha = hash::sha256_hex(&c.orig);
                    if obs["len"].as_u64() != Some(c.orig.len() as u64) || obs["sha"].as_str() != Some(&want_sha) {
                        self.viol("checked-read", format!("checked-read/{}/{}/{}/wrong-bytes-accepted", op, by, flav), format!("{} of damaged content {} succeeded with {} B sha {} (stored: {} B sha {})", op, sri, obs["len"], obs["sha"], c.orig.len(), want_sha));
                    } else {
                        self.probe("damage_was_noop");
                    }
                } else if !got_ok {
                    let v = r["v"].as_str().unwrap_or("");
                    if v != "IntegrityError" && v != "IoError" {
                        self.viol("checked-read", format!("checked-read/{}/{}/{}/{}", op, by, flav, Self::bad_result_detail(r)), format!("{} of damaged content must fail with an integrity or I/O error, got {}", op, r));
                    } else {
                        self.probe("damage_detected");
                    }
                }
            }
        }
    }

    // ------------------------------------------------------------ extraction
    fn judge_extract(&mut self, st: &Value, r: &Value, key: Option<&str>, pre: FileState) {
        let flav = Self::flav(st);
        let op = st["op"].as_str().unwrap_or("copy").to_string();
        let checked = !op.ends_with("_unchecked");
        let to = pdec(&self.subst(st["to"].as_str().unwrap_or("$O/x")));
        let post = file_state(&to);
        let by = if key.is_some() { "key" } else { "addr" };
        let (sri, content) = match key {
            Some(k) => match self.expected_content_for_key(k) {
                Err(()) => {
                    if !(r["r"] == "err" && r["v"] == "EntryNotFound") {
                        self.viol("extract", format!("extract/{}/{}/absent-key/{}", op, flav, Self::bad_result_detail(r)), format!("{} of a key with no live entry must fail with EntryNotFound, got {}", op, r));
                    }
                    if post != pre {
                        self.viol("extract", format!("extract/{}/{}/absent-key/dest-changed", op, flav), format!("{} of missing key changed the destination", op));
                    }
                    return;
                }
                Ok(x) => x,
            },
            None => {
                let a = st.get("addr").cloned().unwrap_or(json!({}));
                let s = self.addr(&a);
                let c = self.content_state(&s).cloned();
                (s, c)
            }
        };
        let got_ok = r["r"] == "ok";
        if let Ok(rel) = to.strip_prefix(&self.cache) {
            self.cache_dests.insert(rel.to_string_lossy().to_string());
        }
        // from now on the destination is the caller's file: nothing the library does later (removals, re-writes of
        // the entry) may change it. Whatever is there after this call is what is remembered.
        match &post {
            // (a destination the caller chose inside the cache directory shares the cache's fate: clear removes it)
            // (... and only regular files: a hard link to a content path that damage had turned into a symlink is a symlink)
            FileState::File(b) if (got_ok || post != pre) && !to.starts_with(&self.cache) && std::fs::symlink_metadata(&to).map(|m| m.file_type().is_file()).unwrap_or(false) => {
                self.dests.insert(to.clone(), b.clone());
            }
            FileState::File(_) => {}
            _ => {
                self.dests.remove(&to);
            }
        }
        if got_ok && op.starts_with("copy") && !self.deferred && pre != FileState::Absent {
            // the caller had the copy written onto a file that an earlier extraction had handed out as a hard link of
            // ANOTHER entry's content: that content (same inode) is overwritten - the caller's doing, like any other
            // write through such a link
            let rels: Vec<String> = self.m.content.iter().filter(|(r, c)| c.state == CState::Pristine && !c.is_link && hash::content_rel(&sri).as_deref() != Some(r.as_str())).map(|(r, _)| r.clone()).collect();
            for rel in rels {
                if let Ok(b) = std::fs::read(self.cache.join(&rel)) {
                    if let Some(c) = self.m.content.get_mut(&rel) {
                        if b != c.orig {
                            c.state = CState::Damaged;
                            *self.out.faults.entry("content.through_hard_link".to_string()).or_insert(0) += 1;
                            // ... and so is every other file that shares that inode (earlier hard-link extractions)
                            for (p, old) in self.dests.clone() {
                                if let Ok(now) = std::fs::read(&p) {
                                    if now != old && now == b {
                                        self.dests.insert(p, now);
                                    }
                                }
                            }
                        }
                    }
                }
            }
        }
        if got_ok && op.starts_with("copy") && !self.deferred && pre != FileState::Absent {
            // a copy the caller directed onto an existing file rewrites that file's inode: every other name of it
            // (hard links made by earlier extractions) shows the new bytes - the caller's doing
            for (p, old) in self.dests.clone() {
                if p != to {
                    if let Ok(now) = std::fs::read(&p) {
                        if now != old {
                            use std::os::unix::fs::MetadataExt;
                            let same_inode = match (std::fs::metadata(&p), std::fs::metadata(&to)) {
                                (Ok(a), Ok(b)) => a.ino() == b.ino() && a.dev() == b.dev(),
                                _ => false,
                            };
                            if same_inode {
                                self.dests.insert(p, now);
                            }
                        }
                    }
                }
            }
        }
        if got_ok && op.starts_with("copy") && self.target_modes.contains_key(&to) {
            // the caller asked for a copy onto this path: the permission bits it has now are the caller's doing
            self.target_modes.insert(to.clone(), std::fs::metadata(&to).ok().map(|m| std::os::unix::fs::PermissionsExt::mode(&m.permissions()) & 0o7777));
        }
        let dest_preexists = pre != FileState::Absent;
        let is_reflink = op.starts_with("reflink");
        let is_link = op.starts_with("hard_link");
        match content {
            None | Some(Content { state: CState::Missing, .. }) => {
                if got_ok || r["v"] != "IoError" {
                    self.viol("extract", format!("extract/{}/{}/{}/missing-content/{}", op, by, flav, Self::bad_result_detail(r)), format!("{} of absent content {} must fail with an I/O error, got {}", op, sri, r));
                }
            }
            Some(c) if c.state == CState::Pristine => {
                if got_ok {
                    match &post {
                        FileState::File(b) if *b == c.orig => {}
                        other => {
                            self.viol("extract", format!("extract/{}/{}/{}/dest-wrong", op, by, flav), format!("{} reported success but the destination is {} (stored {} B)", op, other.describe(), c.orig.len()));
                        }
                    }
                    if op.starts_with("copy") && r["n"].as_u64() != Some(c.orig.len() as u64) {
                        self.viol("extract", format!("extract/{}/{}/{}/count", op, by, flav), format!("{} returned count {} for {} stored bytes", op, r["n"], c.orig.len()));
                    }
                    if is_reflink {
                        self.probe("reflink_succeeded");
                    }
                } else {
                    // legitimate refusals on a healthy cache: reflink unsupported by the filesystem; hard link / reflink onto an existing path
                    let parent_missing = to.parent().map(|p| !p.exists()).unwrap_or(false);
                    let legit = is_reflink || (is_link && dest_preexists) || matches!(pre, FileState::Dir) || parent_missing;
                    if !legit {
                        self.viol("extract", format!("extract/{}/{}/{}/{}", op, by, flav, Self::bad_result_detail(r)), format!("{} of intact content to a fresh destination must succeed, got {}", op, r));
                    } else if post != pre {
                        self.viol("extract", format!("extract/{}/{}/{}/failed-but-dest-changed", op, by, flav), format!("{} failed ({}) but changed the destination", op, Self::bad_result_detail(r)));
                    }
                }
            }
            Some(c) => {
                self.probe("damaged_content_extracted");
                let cur = if self.deferred { None } else { std::fs::read(self.cache.join(hash::content_rel(&sri).unwrap_or_default())).ok() };
                if checked {
                    if got_ok {
                        match &post {
                            FileState::File(b) if *b == c.orig => self.probe("damage_was_noop"),
                            other => self.viol("checked-read", format!("checked-read/{}/{}/{}/wrong-bytes-accepted", op, by, flav), format!("checked {} of damaged content succeeded; destination is {}", op, other.describe())),
                        }
                    } else {
                        let v = r["v"].as_str().unwrap_or("");
                        if v != "IntegrityError" && v != "IoError" {
                            self.viol("checked-read", format!("checked-read/{}/{}/{}/{}", op, by, flav, Self::bad_result_detail(r)), format!("checked {} of damaged content: unexpected result {}", op, r));
                        }
                        // failed verification must leave no file with the unverified bytes
                        let unverified_left = match (&post, &cur) {
                            (FileState::File(b), Some(cb)) => b == cb && post != pre && *b != c.orig,
                            (FileState::File(b), None) => post != pre && *b != c.orig,
                            _ => false,
                        };
                        if unverified_left {
                            self.viol("extract-leftover", format!("extract-leftover/{}/{}/{}", op, by, flav), format!("checked {} failed verification but left the unverified bytes at the destination ({})", op, post.describe()));
                        }
                    }
                } else if got_ok {
                    if let (FileState::File(b), Some(cb)) = (&post, &cur) {
                        if b != cb {
                            self.viol("extract", format!("extract/{}/{}/{}/unchecked-dest-differs", op, by, flav), format!("unchecked {} delivered bytes that are not the current content file", op));
                        }
                    }
                }
            }
        }
    }

    // ------------------------------------------------------------ lookups
    fn judge_lookup(&mut self, st: &Value, r: &Value, key: &str) {
        let flav = Self::flav(st);
        let op = st["op"].as_str().unwrap_or("metadata").to_string();
        let exp = self.expected_entry(key);
        if r["r"] != "ok" {
            self.viol("lookup", format!("lookup/{}/{}/{}", op, flav, Self::bad_result_detail(r)), format!("{} must not fail on this cache, got {}", op, r));
            return;
        }
        let obs = &r["meta"];
        match (exp, obs.is_null()) {
            (None, true) => {}
            (None, false) => {
                let resurfaced = self.m.inserted.iter().any(|e| e.key == key && obs["sri"].as_str() == Some(&e.sri));
                self.viol("lookup", format!("lookup/{}/{}/{}", op, flav, if resurfaced { "resurfaced" } else { "phantom" }), format!("{}({:?}) returned an entry ({}) but the key has no live entry", op, key, obs));
            }
            (Some(e), true) => {
                self.viol("lookup", format!("lookup/{}/{}/lost{}", op, flav, self.lost_detail(key)), format!("{}({:?}) returned nothing but the live entry is {} size {}", op, key, e.sri, e.size));
            }
            (Some(e), false) => {
                let d = Self::entry_diff(&e, obs);
                if !d.is_empty() {
                    let stale = self.m.inserted.iter().any(|o| o.key == key && Self::entry_diff(o, obs).is_empty());
                    if d.contains(&"sri".to_string()) || d.contains(&"key".to_string()) || stale {
                        self.viol("lookup", format!("lookup/{}/{}/{}{}", op, flav, if stale { "stale" } else { "wrong-entry" }, self.lost_detail(key)), format!("{}({:?}) returned {} but the live entry is {:?} (differs in {:?})", op, key, obs, e, d));
                    } else {
                        self.viol("meta-fields", format!("meta-fields/{}/{}/{}", op, flav, d.join("+")), format!("{}({:?}) returned {} expected {:?} (differs in {:?})", op, key, obs, e, d));
                    }
                }
            }
        }
    }

    /// extra signature detail for lost/stale lookups: does the bucket hold a non-UTF-8 line before the effective record?
    fn lost_detail(&self, key: &str) -> String {
        if !self.m.index_faulted {
            return String::new();
        }
        let b = std::fs::read(hash::bucket_path(&self.cache, key)).unwrap_or_default();
        let lines = fmt::parse_bucket(&b);
        if lines.iter().any(|l| !l.utf8) {
            "/bucket-has-invalid-utf8".to_string()
        } else {
            "/bucket-damaged".to_string()
        }
    }

    fn judge_exists(&mut self, st: &Value, r: &Value) {
        let flav = Self::flav(st);
        let a = st.get("addr").cloned().unwrap_or(json!({}));
        let s = self.addr(&a);
        let present = matches!(self.content_state(&s), Some(c) if c.state != CState::Missing);
        if r["r"] != "ok" || r["b"].as_bool() != Some(present) {
            self.viol("exists", format!("exists/{}/{}", flav, Self::bad_result_detail(r)), format!("exists({}) gave {} but content presence is {}", s, r, present));
        }
    }

    fn judge_list(&mut self, st: &Value, r: &Value) {
        let flav = Self::flav(st);
        // a key removed for good by the same caller between two items of the lazily consumed listing: it may or may
        // not be listed; everything else must be, and no item may be an error
        let rm_key: Option<String> = st.get("rm_key").and_then(|v| v.as_u64()).and_then(|i| self.sc["keys"][i as usize].as_str().map(|s| s.to_string()));
        if let Some(k) = &rm_key {
            let mut r2 = r.clone();
            if let Some(items) = r2["entries"].as_array_mut() {
                items.retain(|it| it["key"].as_str() != Some(k.as_str()));
            }
            let saved = self.m.keys.get(k).cloned();
            if saved.is_some() {
                self.m.keys.insert(k.clone(), None);
            }
            let mut st2 = st.clone();
            st2.as_object_mut().map(|o| o.remove("rm_key"));
            self.judge_list(&st2, &r2);
            if let Some(sv) = saved {
                self.m.keys.insert(k.clone(), sv);
            }
            let rst = json!({"k":"api","op":"remove_opts","fully":true,"key":k,"bin":st["bin"],"mode":"sync"});
            self.judge_remove_opts(&rst, &r["rm"], k);
            self.probe("listing_with_removal_inside");
            return;
        }
        if r["r"] != "ok" {
            self.viol("listing", format!("listing/{}/{}", flav, Self::bad_result_detail(r)), format!("listing failed: {}", r));
            return;
        }
        let errs = r["errs"].as_array().map(|a| a.len()).unwrap_or(0);
        let index_dir = self.m.index_dir;
        if errs > 0 && index_dir && !self.m.index_faulted {
            self.viol("listing", format!("listing/{}/err-items", flav), format!("listing an intact cache yielded {} error item(s): {}", errs, r["errs"]));
        }
        if self.m.foreign {
            return;
        }
        let mut seen: BTreeSet<String> = BTreeSet::new();
        let items = r["entries"].as_array().cloned().unwrap_or_default();
        for it in &items {
            let k = it["key"].as_str().unwrap_or("").to_string();
            if !seen.insert(k.clone()) {
                self.viol("listing", format!("listing/{}/duplicate", flav), format!("key {:?} listed more than once", k));
                continue;
            }
            match self.expected_entry(&k) {
                None => {
                    let removed = self.m.keys.contains_key(&k);
                    self.viol("listing", format!("listing/{}/{}", flav, if removed { "lists-removed" } else { "lists-unknown" }), format!("listing contains {:?} which has no live entry", k));
                }
                Some(e) => {
                    let d = Self::entry_diff(&e, it);
                    if !d.is_empty() {
                        let stale = self.m.inserted.iter().any(|o| o.key == k && Self::entry_diff(o, it).is_empty());
                        self.viol("listing", format!("listing/{}/{}", flav, if stale { "stale".to_string() } else { format!("fields:{}", d.join("+")) }), format!("listed entry for {:?} is {} but lookup/model says {:?}", k, it, e));
                    }
                }
            }
        }
        let live: Vec<String> = self.m.keys.iter().filter(|(_, v)| v.is_some()).map(|(k, _)| k.clone()).collect();
        for k in live {
            if !seen.contains(&k) {
                self.viol("listing", format!("listing/{}/missing{}", flav, self.lost_detail(&k)), format!("live key {:?} is not listed", k));
            }
        }
        if items.len() > 1 {
            self.probe("listing_multi");
        }
    }

    // ------------------------------------------------------------ removals
    fn judge_remove(&mut self, st: &Value, r: &Value, key: &str) {
        let flav = Self::flav(st);
        let known = self.m.keys.contains_key(key);
        if r["r"] == "ok" {
            let t = self.clock.unwrap_or(0);
            self.model_tombstone(key, t);
        } else if known || Self::is_abnormal(r) {
            self.viol("removal", format!("removal/remove/{}/{}", flav, Self::bad_result_detail(r)), format!("remove({:?}) failed: {}", key, r));
        }
    }

    fn judge_remove_hash(&mut self, st: &Value, r: &Value) {
        let flav = Self::flav(st);
        let a = st.get("addr").cloned().unwrap_or(json!({}));
        let s = self.addr(&a);
        let present = matches!(self.content_state(&s), Some(c) if c.state != CState::Missing);
        if present {
            if r["r"] != "ok" {
                self.viol("removal", format!("removal/remove_hash/{}/{}", flav, Self::bad_result_detail(r)), format!("remove_hash({}) of present content failed: {}", s, r));
            } else if let Some(rel) = hash::content_rel(&s) {
                if let Some(c) = self.m.content.get_mut(&rel) {
                    c.state = CState::Missing;
                }
            }
        } else if r["r"] == "ok" && self.content_state(&s).is_none() && !self.m.cleared {
            // removing something that never existed: Ok or Err both fine, nothing else may change (checked by audits)
        }
    }

    fn judge_remove_opts(&mut self, st: &Value, r: &Value, key: &str) {
        if st["fully"].as_bool() != Some(true) {
            return self.judge_remove(st, r, key);
        }
        let flav = Self::flav(st);
        match self.expected_entry(key) {
            Some(e) => {
                let present = matches!(self.content_state(&e.sri), Some(c) if c.state != CState::Missing);
                if present {
                    if r["r"] != "ok" {
                        self.viol("removal", format!("removal/remove_fully/{}/{}", flav, Self::bad_result_detail(r)), format!("remove_fully({:?}) failed: {}", key, r));
                        return;
                    }
                    if let Some(rel) = hash::content_rel(&e.sri) {
                        if let Some(c) = self.m.content.get_mut(&rel) {
                            c.state = CState::Missing;
                        }
                    }
                    self.m.keys.remove(key);
                    self.m.records.remove(&hash::bucket_rel(key));
                } else if r["r"] == "ok" {
                    // content already gone: the library reports the failed unlink; Ok would mean the bucket was removed
                    self.m.keys.remove(key);
                    self.m.records.remove(&hash::bucket_rel(key));
                }
            }
            None => {
                if r["r"] == "ok" {
                    self.m.keys.remove(key);
                    self.m.records.remove(&hash::bucket_rel(key));
                } else if self.m.keys.contains_key(key) && !self.m.cleared {
                    // tombstoned key: bucket exists and must be removable
                    self.viol("removal", format!("removal/remove_fully/{}/{}", flav, Self::bad_result_detail(r)), format!("remove_fully({:?}) of a removed key failed: {}", key, r));
                }
            }
        }
    }

    fn judge_clear(&mut self, st: &Value, r: &Value) {
        let flav = Self::flav(st);
        let existed = self.m.index_dir || !self.m.keys.is_empty() || !self.m.content.is_empty() || (!self.deferred && self.cache.exists());
        if r["r"] != "ok" {
            // by the history (not by a look at the disk: a clear that removed the directory itself must not excuse the
            // failure of the next one) the cache directory is there
            // (a file the scenario itself put into the cache root makes clear fail: it only removes directories)
            if ((existed && (self.deferred || self.cache.is_dir())) || self.m.cache_dir) && self.cache_dests.is_empty() {
                self.viol("removal", format!("removal/clear/{}/{}", flav, Self::bad_result_detail(r)), format!("clear failed: {}", r));
            }
            return;
        }
        for (_, c) in self.m.content.iter_mut() {
            c.state = CState::Missing;
        }
        let ks: Vec<String> = self.m.keys.keys().cloned().collect();
        for k in ks {
            self.m.keys.remove(&k);
        }
        self.m.records.clear();
        self.m.cleared = true;
        self.m.index_dir = false;
        let d = if self.deferred { disk::Disk::default() } else { disk::scan(&self.cache) };
        let others = d.other.iter().filter(|o| !self.cache_dests.contains(*o)).count();
        if !d.content.is_empty() || !d.buckets.is_empty() || !d.tmp.is_empty() || others > 0 {
            self.viol("removal", format!("removal/clear/{}/leftovers", flav), format!("after clear the cache still holds {} content, {} bucket, {} tmp, {} other files", d.content.len(), d.buckets.len(), d.tmp.len(), d.other.len()));
        }
    }

    fn judge_index_insert(&mut self, st: &Value, r: &Value, key: &str) {
        let flav = Self::flav(st);
        if r["r"] != "ok" {
            self.viol("lookup", format!("lookup/index_insert/{}/{}", flav, Self::bad_result_detail(r)), format!("index insert failed: {}", r));
            return;
        }
        let opts = st.get("opts").cloned().unwrap_or(json!({}));
        let time = opts.get("time").and_then(|t| t.as_str()).and_then(|t| t.parse::<u128>().ok()).unwrap_or(self.clock.unwrap_or(0));
        match opts.get("sri") {
            None => self.model_tombstone(key, time),
            Some(a) => {
                let sri = self.addr(a);
                let e = Entry {
                    key: key.to_string(),
                    sri,
                    time,
                    size: opts.get("size").and_then(|s| s.as_u64()).unwrap_or(0),
                    metadata: opts.get("meta").cloned().unwrap_or(Value::Null),
                    raw: opts.get("raw").and_then(|h| h.as_str()).map(|h| hex::decode(h).unwrap_or_default()),
                };
                self.model_insert(e);
            }
        }
    }

    // ------------------------------------------------------------ link_to (C19)
    fn judge_link_to(&mut self, st: &Value, r: &Value, key: Option<&str>) {
        let flav = Self::flav(st);
        let tgt_arg = st["target"].as_str().unwrap_or("").to_string();
        let tgt_abs = {
            let s = self.subst(&tgt_arg);
            let p = pdec(&s);
            let joined = if p.is_absolute() { p } else { self.worker_cwd(st).join(p) };
            // the file the kernel reaches through this spelling (`dir/..` goes to the parent of what `dir` points to
            // when `dir` is a symlink); textual folding only when the path does not resolve
            std::fs::canonicalize(&joined).unwrap_or_else(|_| lexical_normalize(&joined))
        };
        let opts = st.get("opts").cloned().unwrap_or(json!({}));
        let entry = st["entry"].as_str().unwrap_or("fn").to_string();
        let algo = if entry == "opts" { norm_algo(opts.get("algo").and_then(|a| a.as_str())).to_string() } else { "sha256".to_string() };
        let data = match std::fs::read(&tgt_abs) {
            Ok(d) => d,
            Err(_) => {
                if r["r"] == "ok" {
                    self.viol("linkto", format!("linkto/{}/{}/ok-on-missing-target", entry, flav), format!("link_to of a missing target succeeded: {}", r));
                }
                return;
            }
        };
        let computed = hash::sri(&algo, &data);
        if st["end"].as_str() == Some("drop") {
            return;
        }
        let declared = if entry == "opts" { opts.get("sri").map(|a| self.addr(a)) } else { None };
        let declared_size = match entry.as_str() {
            "opts" => opts.get("size").and_then(|s| s.as_u64()),
            _ => Some(data.len() as u64),
        };
        let integ_ok = declared.as_ref().map(|d| d.split_whitespace().any(|h| h == computed)).unwrap_or(true);
        let no_hash_of_algo = declared.as_ref().map(|d| !d.split_whitespace().any(|h| h.starts_with(&format!("{}-", algo)))).unwrap_or(false);
        // another algorithm's digest: silent if it is a true digest of the target, a mismatch otherwise
        let other_true = declared.as_ref().map(|d| d.split_whitespace().any(|h| h.split_once('-').map(|(a, _)| hash::sri(a, &data) == h).unwrap_or(false))).unwrap_or(false);
        let integ_amb = no_hash_of_algo && other_true;
        let integ_ok = if no_hash_of_algo && !other_true { false } else { integ_ok };
        let size_ok = declared_size.map(|s| s == data.len() as u64).unwrap_or(true);
        let is_ok = r["r"] == "ok";
        if integ_amb {
            // both outcomes accepted; whatever symlink is there belongs to this linker
            if let Some(rel) = hash::content_rel(&computed) {
                if std::fs::symlink_metadata(self.cache.join(&rel)).map(|m| m.file_type().is_symlink()).unwrap_or(false) && !self.m.content.contains_key(&rel) {
                    self.m.content.insert(rel.clone(), Content { orig: data.clone(), state: CState::Pristine, is_link: true });
                    self.links.entry(tgt_abs.clone()).or_default().push(rel);
                }
            }
            if is_ok {
                if let Some(k) = key {
                    self.m.keys.entry(k.to_string()).or_insert(None);
                    self.resync_keys_from_disk(false);
                }
            }
            return;
        }
        if !(integ_ok && size_ok) {
            let v = r["v"].as_str().unwrap_or("");
            if is_ok || !(v == "IntegrityError" || v == "SizeMismatch") {
                self.viol("linkto", format!("linkto/{}/{}/reject/{}", entry, flav, Self::bad_result_detail(r)), format!("link_to with mismatching declaration (integ_ok={integ_ok}, size_ok={size_ok}) must be rejected, got {}", r));
            }
            // the symlink may already exist (allowed: content area only); keep model of content
            if let Some(rel) = hash::content_rel(&computed) {
                if std::fs::symlink_metadata(self.cache.join(&rel)).is_ok() && !self.m.content.contains_key(&rel) {
                    self.m.content.insert(rel.clone(), Content { orig: data.clone(), state: CState::Pristine, is_link: true });
                    self.links.entry(tgt_abs.clone()).or_default().push(rel);
                }
            }
            return;
        }
        if !is_ok {
            self.viol("linkto", format!("linkto/{}/{}/{}", entry, flav, Self::bad_result_detail(r)), format!("link_to of an existing target must succeed, got {}", r));
            return;
        }
        let got = r["sri"].as_str().unwrap_or("");
        if got != computed && declared.as_deref() != Some(got) {
            self.viol("linkto", format!("linkto/{}/{}/address", entry, flav), format!("link_to returned {} but the digest of the target is {}", got, computed));
        }
        let rel = hash::content_rel(&computed).unwrap_or_default();
        let pre_existing_regular = matches!(self.m.content.get(&rel), Some(c) if c.state != CState::Missing && !c.is_link);
        let md = std::fs::symlink_metadata(self.cache.join(&rel));
        match md {
            _ if self.deferred => {}
            Ok(m) => {
                if pre_existing_regular {
                    if m.file_type().is_symlink() {
                        self.viol("linkto", format!("linkto/{}/{}/clobbered-regular", entry, flav), "existing regular content was replaced by a symlink".to_string());
                    }
                } else if !m.file_type().is_symlink() {
                    self.viol("linkto", format!("linkto/{}/{}/copied", entry, flav), "link_to stored a copy instead of a symlink".to_string());
                } else {
                    self.probe("symlink_created");
                }
            }
            Err(_) => self.viol("linkto", format!("linkto/{}/{}/no-content-path", entry, flav), "no file at the content path after link_to".to_string()),
        }
        if !pre_existing_regular {
            self.m.content.insert(rel.clone(), Content { orig: data.clone(), state: CState::Pristine, is_link: true });
            self.links.entry(tgt_abs.clone()).or_default().push(rel.clone());
        }
        self.check_targets_untouched(&format!("{}/{}", entry, flav));
        if let Some(k) = key {
            let time = opts.get("time").and_then(|t| t.as_str()).and_then(|t| t.parse::<u128>().ok()).unwrap_or(self.clock.unwrap_or(0));
            let e = Entry {
                key: k.to_string(),
                sri: declared.unwrap_or(computed),
                time,
                size: declared_size.unwrap_or(data.len() as u64),
                metadata: if entry == "opts" { opts.get("meta").cloned().unwrap_or(Value::Null) } else { Value::Null },
                raw: if entry == "opts" { opts.get("raw").and_then(|h| h.as_str()).map(|h| hex::decode(h).unwrap_or_default()) } else { None },
            };
            self.model_insert(e);
        }
    }

    /// link targets are never modified by the library
    fn check_targets_untouched(&mut self, ctx: &str) {
        for (p, want) in self.targets.clone() {
            let have = std::fs::read(&p).ok();
            if have != want {
                self.viol("linkto", format!("linkto/{}/target-modified", ctx), format!("link target {} was modified by the library", self.unsubst(&p.display().to_string())));
            }
            // permission bits are part of the caller's file too (a chmod through the cache's symlink lands on it)
            let mode = std::fs::metadata(&p).ok().map(|m| std::os::unix::fs::PermissionsExt::mode(&m.permissions()) & 0o7777);
            if let Some(wm) = self.target_modes.get(&p) {
                if want.is_some() && mode != *wm {
                    self.viol("linkto", format!("linkto/{}/target-mode-changed", ctx), format!("permission bits of link target {} changed from {:o} to {:o}", self.unsubst(&p.display().to_string()), wm.unwrap_or(0), mode.unwrap_or(0)));
                }
            }
        }
    }

    fn worker_cwd(&self, _st: &Value) -> PathBuf {
        self.cwd.clone().unwrap_or(self.ctx.scratch.clone())
    }

    // ------------------------------------------------------------ environment (storage faults)
    fn resolve_env(&mut self, e: &Value) -> Value {
        let mut m = e.as_object().cloned().unwrap_or_default();
        let path = if let Some(a) = e.get("content") {
            let s = self.addr(a);
            Some(hash::content_path(&self.cache, &s))
        } else if let Some(k) = e.get("bucket_sibling").and_then(|k| k.as_str()) {
            let mut p = hash::bucket_path(&self.cache, k).into_os_string();
            p.push(e.get("suffix").and_then(|x| x.as_str()).unwrap_or(".lock"));
            Some(PathBuf::from(p))
        } else if let Some(k) = e.get("bucket") {
            let key = if let Some(i) = k.as_u64() { self.sc["keys"][i as usize].as_str().unwrap_or("").to_string() } else { k.as_str().unwrap_or("").to_string() };
            Some(hash::bucket_path(&self.cache, &key))
        } else {
            e.get("path").and_then(|p| p.as_str()).map(|p| pdec(&self.subst(p)))
        };
        if let Some(p) = path {
            m.insert("path".into(), json!(penc(&p)));
        }
        if let Some(t) = e.get("target_content") {
            let s = self.addr(t);
            m.insert("target".into(), json!(penc(&hash::content_path(&self.cache, &s))));
        } else if let Some(t) = e.get("target").and_then(|t| t.as_str()) {
            m.insert("target".into(), json!(self.subst(t)));
        }
        if let Some(vi) = e.get("val").and_then(|v| v.as_u64()) {
            m.insert("data".into(), self.val_spec(vi as usize));
        }
        m.insert("op".into(), json!("env"));
        Value::Object(m)
    }

    fn env_step(&mut self, st: &Value) {
        let act = st["act"].as_str().unwrap_or("").to_string();
        let e = self.resolve_env(st);
        let path = lexical_normalize(&pdec(e["path"].as_str().unwrap_or("")));
        if path == self.cache || (!path.starts_with(&self.cache) && self.cache.starts_with(&path)) || st.get("hostile").is_some() {
            self.m.cache_dir = false;
        }
        if st.get("hostile").is_some() {
            self.probe("hostile_step");
        }
        let before = std::fs::read(&path).ok();
        // silent bit rot: the damage leaves size and timestamps as they were
        let keep_times = if st.get("keep_mtime").and_then(|v| v.as_bool()) == Some(true) { std::fs::metadata(&path).ok().map(|m| { use std::os::unix::fs::MetadataExt; (m.atime(), m.atime_nsec(), m.mtime(), m.mtime_nsec()) }) } else { None };
        let frac = |len: usize| -> usize { ((st["num"].as_u64().unwrap_or(0) as u128 * len as u128) / 1000) as usize };
        let mut noop = false;
        let res: std::io::Result<()> = (|| {
            match act.as_str() {
                "flip" | "flip_frac" => {
                    let mut b = std::fs::read(&path)?;
                    let i = if act == "flip" { st["byte"].as_u64().unwrap_or(0) as usize } else { frac(b.len()) };
                    if i < b.len() {
                        b[i] ^= 1 << (st["bit"].as_u64().unwrap_or(0) as u8 & 7);
                    } else {
                        noop = true;
                    }
                    write_inplace(&path, &b)
                }
                "truncate" | "truncate_frac" => {
                    let cur = std::fs::metadata(&path)?.len();
                    let n = if act == "truncate" { st["len"].as_u64().unwrap_or(0) } else { frac(cur as usize) as u64 };
                    if n >= cur {
                        noop = true;
                        if st.get("only_if_shorter").is_some() {
                            return Ok(());
                        }
                    }
                    let f = std::fs::OpenOptions::new().write(true).open(&path)?;
                    f.set_len(n)
                }
                "extend" => {
                    use std::io::Write;
                    let mut f = std::fs::OpenOptions::new().append(true).open(&path)?;
                    let n = st["n"].as_u64().unwrap_or(1) as usize;
                    f.write_all(&datagen::gen(st["seed"].as_u64().unwrap_or(1), n))
                }
                "garble" | "garble_frac" => {
                    let mut b = std::fs::read(&path)?;
                    let off = if act == "garble" { st["off"].as_u64().unwrap_or(0) as usize } else { frac(b.len()) };
                    let g = datagen::gen(st["seed"].as_u64().unwrap_or(1) ^ 0xabcdef, st["n"].as_u64().unwrap_or(1) as usize + 8);
                    for (j, x) in g.iter().skip(8).enumerate() {
                        if off + j < b.len() {
                            b[off + j] = *x;
                        }
                    }
                    write_inplace(&path, &b)
                }
                "replace_with" => {
                    let src = pdec(e["target"].as_str().unwrap_or(""));
                    let b = std::fs::read(&src)?;
                    write_inplace(&path, &b)
                }
                "swap" => {
                    let other = pdec(e["target"].as_str().unwrap_or(""));
                    let a = std::fs::read(&path)?;
                    let b = std::fs::read(&other)?;
                    write_inplace(&path, &b)?;
                    write_inplace(&other, &a)
                }
                "symlink_to" => {
                    let other = pdec(e["target"].as_str().unwrap_or(""));
                    std::fs::remove_file(&path)?;
                    std::os::unix::fs::symlink(&other, &path)
                }
                "symlink_loop" => {
                    if let Some(d) = path.parent() {
                        std::fs::create_dir_all(d)?;
                    }
                    let _ = std::fs::remove_file(&path);
                    std::os::unix::fs::symlink(&path, &path)
                }
                "delete" => std::fs::remove_file(&path),
                "rmdir_cache" => std::fs::remove_dir_all(&path),
                "write_file" | "overwrite_inplace" => {
                    if let Some(d) = path.parent() {
                        std::fs::create_dir_all(d)?;
                    }
                    let data = match e.get("data") {
                        Some(d) if d.get("g").is_some() => datagen::gen(d["g"][0].as_u64().unwrap_or(0), d["g"][1].as_u64().unwrap_or(0) as usize),
                        Some(d) if d.get("h").is_some() => hex::decode(d["h"].as_str().unwrap_or("")).unwrap_or_default(),
                        _ => hex::decode(st["hex"].as_str().unwrap_or("")).unwrap_or_default(),
                    };
                    if act == "write_file" {
                        std::fs::write(&path, data)
                    } else {
                        write_inplace(&path, &data)
                    }
                }
                "mkdir" => std::fs::create_dir_all(&path),
                "toplevel_symlink" => {
                    // one of the cache's top-level directories lives elsewhere (moved to a bigger disk and linked back)
                    let tgt = pdec(e["target"].as_str().unwrap_or(""));
                    std::fs::create_dir_all(&tgt)?;
                    if let Some(d) = path.parent() {
                        std::fs::create_dir_all(d)?;
                    }
                    match std::fs::symlink_metadata(&path) {
                        Ok(m) if m.file_type().is_symlink() => return Ok(()),
                        Ok(m) if m.is_dir() => {
                            // move what is there
                            for ent in std::fs::read_dir(&path)? {
                                let ent = ent?;
                                std::fs::rename(ent.path(), tgt.join(ent.file_name()))?;
                            }
                            std::fs::remove_dir(&path)?;
                        }
                        Ok(_) => std::fs::remove_file(&path)?,
                        Err(_) => {}
                    }
                    std::os::unix::fs::symlink(&tgt, &path)
                }
                "dir_symlink" => {
                    if let Some(d) = path.parent() {
                        std::fs::create_dir_all(d)?;
                    }
                    std::os::unix::fs::symlink(pdec(e["target"].as_str().unwrap_or("")), &path)
                }
                "insert_bytes" => {
                    let mut b = std::fs::read(&path)?;
                    let off = (st["off"].as_u64().unwrap_or(0) as usize).min(b.len());
                    let ins = hex::decode(st["hex"].as_str().unwrap_or("")).unwrap_or_default();
                    b.splice(off..off, ins);
                    std::fs::write(&path, &b)
                }
                "insert_line" => {
                    // a whole extra line ("\n" + bytes without newline) placed at a record boundary
                    let mut b = std::fs::read(&path)?;
                    let bounds: Vec<usize> = b.iter().enumerate().filter(|(_, c)| **c == b'\n').map(|(i, _)| i).collect();
                    let i = st["boundary"].as_u64().unwrap_or(0) as usize;
                    let off = if i < bounds.len() { bounds[i] } else { b.len() };
                    let mut ins = vec![b'\n'];
                    ins.extend(hex::decode(st["hex"].as_str().unwrap_or("")).unwrap_or_default().into_iter().map(|c| if c == b'\n' { b'.' } else { c }));
                    b.splice(off..off, ins);
                    std::fs::write(&path, &b)
                }
                "boundary_byte" => {
                    // the newline in front of the n-th record is overwritten (by a tab, a space, a NUL, ...): two records fuse into one line
                    let mut b = std::fs::read(&path)?;
                    let bounds: Vec<usize> = b.iter().enumerate().filter(|(_, c)| **c == b'\n').map(|(i, _)| i).collect();
                    let i = st["boundary"].as_u64().unwrap_or(0) as usize;
                    if i < bounds.len() {
                        b[bounds[i]] = st["byte"].as_u64().unwrap_or(9) as u8;
                    } else {
                        noop = true;
                    }
                    write_inplace(&path, &b)
                }
                "chmod" => {
                    use std::os::unix::fs::PermissionsExt;
                    std::fs::set_permissions(&path, std::fs::Permissions::from_mode(st["mode"].as_u64().unwrap_or(0o644) as u32))
                }
                "dup_fragment" | "dup_frac" => {
                    let mut b = std::fs::read(&path)?;
                    let n = b.len();
                    let (mut from, mut to, at) = if act == "dup_fragment" {
                        (st["from"].as_u64().unwrap_or(0) as usize, st["to"].as_u64().unwrap_or(0) as usize, st["at"].as_u64().unwrap_or(0) as usize)
                    } else {
                        let f = |k: &str| ((st[k].as_u64().unwrap_or(0) as u128 * n as u128) / 1000) as usize;
                        (f("a"), f("b"), f("c"))
                    };
                    if from > to {
                        std::mem::swap(&mut from, &mut to);
                    }
                    let from = from.min(n);
                    let to = to.min(n);
                    let at = at.min(n);
                    let frag = b[from..to].to_vec();
                    b.splice(at..at, frag);
                    std::fs::write(&path, &b)
                }
                "append_hashed_text" => {
                    // a line with a correct checksum over an arbitrary text (what another writer of the format might emit)
                    use std::io::Write;
                    if let Some(d) = path.parent() {
                        std::fs::create_dir_all(d)?;
                    }
                    let text = st["text"].as_str().unwrap_or("");
                    let mut f = std::fs::OpenOptions::new().create(true).append(true).open(&path)?;
                    f.write_all(format!("\n{}\t{}", hash::sha256_hex(text.as_bytes()), text).as_bytes())
                }
                "append_record" => {
                    use std::io::Write;
                    if let Some(d) = path.parent() {
                        std::fs::create_dir_all(d)?;
                    }
                    let rec = Rec::from_json(&st["rec"].to_string()).ok_or_else(|| std::io::Error::new(std::io::ErrorKind::Other, "bad rec"))?;
                    let mut f = std::fs::OpenOptions::new().create(true).append(true).open(&path)?;
                    f.write_all(rec.record().as_bytes())
                }
                _ => Ok(()),
            }
        })();
        if res.is_err() {
            self.probe("env_step_failed");
            return;
        }
        if let Some((as_, an, ms, mn)) = keep_times {
            if let Ok(c) = std::ffi::CString::new(std::os::unix::ffi::OsStrExt::as_bytes(path.as_os_str())) {
                let ts = [libc::timespec { tv_sec: as_, tv_nsec: an }, libc::timespec { tv_sec: ms, tv_nsec: mn }];
                unsafe {
                    libc::utimensat(libc::AT_FDCWD, c.as_ptr(), ts.as_ptr(), 0);
                }
                self.probe("damage_kept_mtime");
            }
        }
        let after = std::fs::read(&path).ok();
        let changed = before != after;
        if noop || (!changed && act != "noop_mark_damaged" && act != "mkdir" && act != "chmod" && act != "dir_symlink" && act != "toplevel_symlink" && act != "symlink_loop") {
            self.probe("env_step_noop");
        } else {
            self.fault(&format!("{}{}", if st.get("content").is_some() { "content." } else if st.get("bucket").is_some() { "bucket." } else { "fs." }, act.trim_end_matches("_frac")));
        }
        // the environment wrote to a file outside the cache: if that file is a hard link handed out by an earlier
        // extraction, the content file (same inode) is damaged now
        if changed && !path.starts_with(&self.cache) {
            let rels: Vec<String> = self.m.content.iter().filter(|(_, c)| c.state == CState::Pristine && !c.is_link).map(|(r, _)| r.clone()).collect();
            for rel in rels {
                if let Ok(b) = std::fs::read(self.cache.join(&rel)) {
                    if let Some(c) = self.m.content.get_mut(&rel) {
                        if b != c.orig {
                            c.state = CState::Damaged;
                            *self.out.faults.entry("content.through_hard_link".to_string()).or_insert(0) += 1;
                        }
                    }
                }
            }
        }
        // what the environment does to extracted files (also through a shared inode) is not the library's doing
        for (p, b) in self.dests.clone() {
            match std::fs::read(&p) {
                Ok(now) if now != b => {
                    self.dests.insert(p, now);
                }
                Ok(_) => {}
                Err(_) => {
                    self.dests.remove(&p);
                }
            }
        }
        // files under the link-target area: remember what the environment wrote, mark linked content
        let troot = self.root.join("targets");
        if path.starts_with(&troot) {
            self.targets.insert(path.clone(), after.clone());
            self.target_modes.insert(path.clone(), std::fs::metadata(&path).ok().map(|m| std::os::unix::fs::PermissionsExt::mode(&m.permissions()) & 0o7777));
            if let Some(rels) = self.links.get(&path).cloned() {
                for rel in rels {
                    if let Some(c) = self.m.content.get_mut(&rel) {
                        if c.is_link {
                            c.state = CState::Damaged;
                        }
                    }
                }
                self.fault("target_mutation");
            }
        }
        // writing through a content path that an earlier fault turned into a symlink damages the link's target
        if changed && act != "symlink_to" {
            if let Ok(md) = std::fs::symlink_metadata(&path) {
                if md.file_type().is_symlink() {
                    if let Ok(t) = std::fs::canonicalize(&path) {
                        if let Ok(rel) = t.strip_prefix(std::fs::canonicalize(&self.cache).unwrap_or(self.cache.clone())) {
                            let rel = rel.to_string_lossy().to_string();
                            if let Some(c) = self.m.content.get_mut(&rel) {
                                c.state = CState::Damaged;
                            }
                        }
                    }
                }
            }
        }
        // model update by the fault's definition
        if let Some(a) = st.get("content") {
            let s = self.addr(a);
            if let Some(rel) = hash::content_rel(&s) {
                if let Some(c) = self.m.content.get_mut(&rel) {
                    if act == "delete" {
                        c.state = CState::Missing;
                    } else if changed || act == "noop_mark_damaged" || act == "symlink_to" {
                        c.state = CState::Damaged;
                    }
                }
            }
            if act == "swap" {
                if let Some(t) = st.get("target_content") {
                    let s2 = self.addr(t);
                    if let Some(rel) = hash::content_rel(&s2) {
                        if let Some(c) = self.m.content.get_mut(&rel) {
                            c.state = CState::Damaged;
                        }
                    }
                }
            }
        }
        if st.get("bucket").is_some() {
            if changed {
                if let Some(b) = &before {
                    if fmt::parse_bucket(b).iter().any(|l| l.rec.is_some()) {
                        self.probe("bucket_nonempty_damaged");
                    }
                    if let Some(a) = &after {
                        let la = fmt::parse_bucket(a);
                        if la.iter().any(|l| !l.utf8) {
                            self.probe("bucket_has_invalid_utf8_line");
                        }
                    }
                }
            }
            if act == "append_record" {
                if let Some(r) = Rec::from_json(&st["rec"].to_string()) {
                    let bucket_key = self.key_of_bucket_ref(&st["bucket"]);
                    if !r.integrity.as_deref().map(fmt::sri_parses).unwrap_or(true) {
                        // not an integrity value: the record is ignored by every reader
                        self.probe("record_with_unparsable_integrity");
                        self.strict_format = false;
                    } else if r.key != bucket_key {
                        self.m.foreign = true;
                        self.probe("bucket_shared_by_foreign_key");
                    } else {
                        self.m.keys.entry(r.key.clone()).or_insert(None);
                        if let Some(e) = Entry::from_rec(&r) {
                            self.m.inserted.push(e);
                        }
                        self.m.records.entry(hash::bucket_rel(&r.key)).or_default().push(r.clone());
                        self.probe("reference_writer_record");
                        self.m.index_dir = true;
                    }
                }
            }
            self.resync_keys_from_disk(act != "append_record");
        }
    }

    fn key_of_bucket_ref(&self, k: &Value) -> String {
        if let Some(i) = k.as_u64() { self.sc["keys"][i as usize].as_str().unwrap_or("").to_string() } else { k.as_str().unwrap_or("").to_string() }
    }

    // ------------------------------------------------------------ audits
    /// An audit step looks at every key and address of the model through the given reader flavour.
    fn audit(&mut self, st: &Value) {
        let bin = st["bin"].as_str().unwrap_or("sync").to_string();
        let mode = st["mode"].as_str().unwrap_or("sync").to_string();
        let what: Vec<String> = st["what"].as_array().map(|a| a.iter().filter_map(|x| x.as_str().map(|s| s.to_string())).collect()).unwrap_or_else(|| vec!["metadata".into(), "read".into(), "list".into()]);
        let keys: Vec<String> = {
            let mut ks: Vec<String> = self.sc["keys"].as_array().map(|a| a.iter().filter_map(|k| k.as_str().map(|s| s.to_string())).collect()).unwrap_or_default();
            for k in self.m.keys.keys() {
                if !ks.contains(k) {
                    ks.push(k.clone());
                }
            }
            ks
        };
        for k in &keys {
            for w in &what {
                let opn = match w.as_str() {
                    "metadata" => "metadata",
                    "read" => "read",
                    "reader" => "reader",
                    _ => continue,
                };
                let step = json!({"k":"api","bin":bin,"mode":mode,"op":opn,"key":k});
                self.api_step(&step);
            }
        }
        if what.iter().any(|w| w == "read_hash" || w == "exists") {
            let rels: Vec<(String, Content)> = self.m.content.iter().map(|(r, c)| (r.clone(), c.clone())).collect();
            for (rel, _c) in rels {
                // rebuild an sri from the rel path
                let parts: Vec<&str> = rel.split('/').collect();
                if parts.len() != 5 {
                    continue;
                }
                let hexd = format!("{}{}{}", parts[2], parts[3], parts[4]);
                let raw = match hex::decode(&hexd) {
                    Ok(r) => r,
                    Err(_) => continue,
                };
                use base64::Engine;
                let sri = format!("{}-{}", parts[1], base64::prelude::BASE64_STANDARD.encode(raw));
                for w in &what {
                    let opn = match w.as_str() {
                        "read_hash" => "read",
                        "exists" => "exists",
                        _ => continue,
                    };
                    let step = json!({"k":"api","bin":bin,"mode":mode,"op":opn,"addr":{"raw":sri}});
                    self.api_step(&step);
                }
            }
        }
        if what.iter().any(|w| w == "list") {
            let step = json!({"k":"api","bin":bin,"mode":"sync","op":"list"});
            self.api_step(&step);
        }
    }

    // ------------------------------------------------------------ end-of-run disk checks
    fn final_checks(&mut self) {
        if self.out.harness.is_some() {
            return;
        }
        // files delivered by earlier extractions still hold what was delivered
        for (p, b) in self.dests.clone() {
            let now = std::fs::read(&p).ok();
            if now.as_ref() != Some(&b) {
                let shown = self.unsubst(&penc(&p));
                self.viol("extract", "extract/dest-changed-later".to_string(), format!("{} held {} B after its extraction and holds {} now: a later call of the library changed a file it had handed out", shown, b.len(), now.map(|n| format!("{} B", n.len())).unwrap_or("nothing".into())));
            }
        }
        let d = disk::scan(&self.cache);
        // I1: every regular file under content-v2 hashes to its path (unless the environment damaged it)
        for cf in &d.content {
            let st = self.m.content.get(&cf.rel).map(|c| c.state.clone());
            match cf.kind {
                disk::FileKind::Regular => {
                    if !cf.well_placed {
                        self.viol("content-integrity", format!("content-integrity/misplaced"), format!("unexpected file in the content area: {}", cf.rel));
                    } else if !cf.digest_ok && st != Some(CState::Damaged) {
                        self.viol("content-integrity", format!("content-integrity/digest-mismatch"), format!("content file {} ({} B) does not hash to its address", cf.rel, cf.len));
                    }
                    if st.is_none() && cf.digest_ok {
                        self.probe("content_unknown_to_model");
                    }
                }
                disk::FileKind::Symlink => {
                    if !matches!(self.m.content.get(&cf.rel), Some(c) if c.is_link || c.state == CState::Damaged) {
                        self.viol("content-integrity", "content-integrity/unexpected-symlink".to_string(), format!("unexpected symlink in the content area: {}", cf.rel));
                    }
                }
                _ => {}
            }
        }
        // dedup: one file per address is structural (path = address); model content marked present must exist
        for (rel, c) in self.m.content.clone() {
            let on_disk = d.content.iter().any(|f| f.rel == rel);
            if c.state == CState::Pristine && !on_disk {
                self.viol("content-lost", "content-lost".to_string(), format!("content {} should be present but is not on disk", rel));
            }
            if c.state == CState::Missing && on_disk {
                self.viol("content-lost", "content-resurrected".to_string(), format!("content {} was removed but is on disk", rel));
            }
        }
        // temp area drained
        if !d.tmp.is_empty() && !self.allow_tmp_leftovers {
            // give background unlinks a moment (async writers finishing on pool threads)
            let mut left = d.tmp.clone();
            for _ in 0..200 {
                left = list_dir(&self.cache.join("tmp"));
                if left.is_empty() {
                    break;
                }
                std::thread::sleep(std::time::Duration::from_millis(5));
            }
            if !left.is_empty() {
                self.viol("abandon-trace", "abandon-trace/tmp-left/end-of-run".to_string(), format!("temp files remain at the end of the run: {:?}", left));
            }
        }
        self.check_targets_untouched("end-of-run");
        let strays: Vec<&String> = d.other.iter().filter(|o| !self.cache_dests.contains(*o)).collect();
        if !strays.is_empty() {
            self.viol("format", "format/stray-files".to_string(), format!("unexpected files in the cache root: {:?}", strays));
        }
        // format: bucket bytes are exactly what the reference writer emits for the model's insert sequence
        if !self.m.index_faulted && !self.m.foreign && self.strict_format {
            let mut expected: BTreeMap<String, String> = BTreeMap::new();
            for (rel, recs) in &self.m.records {
                expected.insert(rel.clone(), recs.iter().map(|r| r.record()).collect::<Vec<_>>().join(""));
            }
            for (rel, bytes) in &d.buckets {
                match expected.get(rel) {
                    None => self.viol("format", "format/unexpected-bucket".to_string(), format!("bucket file {} exists but the model has no insert for it", rel)),
                    Some(e) => {
                        if e.as_bytes() != &bytes[..] {
                            let got = String::from_utf8_lossy(bytes).to_string();
                            self.viol("format", "format/bucket-bytes".to_string(), format!("bucket {} differs from the reference encoding.\n expected: {:?}\n got:      {:?}", rel, e, got));
                        }
                    }
                }
            }
            for (rel, _) in &expected {
                if !d.buckets.contains_key(rel) {
                    self.viol("format", "format/missing-bucket".to_string(), format!("bucket file {} missing", rel));
                }
            }
        }
        // decode == model
        if !self.m.foreign {
            let live = d.live_entries();
            for (k, e) in &self.m.keys.clone() {
                let on = live.get(k).and_then(Entry::from_rec);
                if on != *e {
                    self.viol("format", "format/decode-differs".to_string(), format!("independent decode of key {:?} gives {:?} but the model says {:?}", k, on, e));
                }
            }
        }
    }
}

pub fn lexical_normalize(p: &Path) -> PathBuf {
    let mut out = PathBuf::new();
    for c in p.components() {
        match c {
            std::path::Component::ParentDir => {
                out.pop();
            }
            std::path::Component::CurDir => {}
            other => out.push(other.as_os_str()),
        }
    }
    out
}

pub fn list_dir(p: &Path) -> Vec<String> {
    match std::fs::read_dir(p) {
        Ok(rd) => {
            let mut v: Vec<String> = rd.flatten().map(|e| e.file_name().to_string_lossy().to_string()).collect();
            v.sort();
            v
        }
        Err(_) => Vec::new(),
    }
}

fn write_inplace(p: &Path, b: &[u8]) -> std::io::Result<()> {
    use std::io::Write;
    let mut f = std::fs::OpenOptions::new().write(true).truncate(true).open(p)?;
    f.write_all(b)
}

#[derive(Clone, Debug, PartialEq)]
pub enum FileState {
    Absent,
    File(Vec<u8>),
    Dir,
    Other,
}

impl FileState {
    pub fn describe(&self) -> String {
        match self {
            FileState::Absent => "absent".into(),
            FileState::File(b) => format!("a file of {} B sha {}", b.len(), &hash::sha256_hex(b)[..12]),
            FileState::Dir => "a directory".into(),
            FileState::Other => "special".into(),
        }
    }
}

pub fn file_state(p: &Path) -> FileState {
    match std::fs::symlink_metadata(p) {
        Err(_) => FileState::Absent,
        Ok(m) => {
            if m.is_dir() {
                FileState::Dir
            } else if m.is_file() || m.file_type().is_symlink() {
                match std::fs::read(p) {
                    Ok(b) => FileState::File(b),
                    Err(_) => FileState::Other,
                }
            } else {
                FileState::Other
            }
        }
    }
}

// ------------------------------------------------------------------------------------------------
// C12: the same program through the three pure flavours on three fresh caches.
fn norm_result(r: &Value) -> Value {
    let mut o = serde_json::Map::new();
    for k in ["r", "v", "sri", "len", "sha", "n", "b", "meta", "dropped", "checked", "a"] {
        if let Some(x) = r.get(k) {
            o.insert(k.to_string(), x.clone());
        }
    }
    if r["v"] == "SizeMismatch" {
        o.insert("b".into(), r["b"].clone());
    }
    if let Some(g) = r.get("got") {
        if r["r"] == "ok" {
            o.insert("got".into(), json!({"len": g["len"], "sha": g["sha"]}));
        }
    }
    if let Some(d) = r.get("dest") {
        o.insert("dest".into(), json!({"exists": d["exists"], "len": d["len"], "sha": d["sha"], "kind": d["kind"]}));
    }
    if let Some(e) = r.get("entries").and_then(|e| e.as_array()) {
        let mut es: Vec<String> = e.iter().map(|x| x.to_string()).collect();
        es.sort();
        o.insert("entries".into(), json!(es));
        o.insert("errs".into(), json!(r["errs"].as_array().map(|a| a.len()).unwrap_or(0)));
    }
    Value::Object(o)
}

pub fn disk_summary(cache: &Path) -> Value {
    let d = disk::scan(cache);
    let mut buckets = serde_json::Map::new();
    for (rel, b) in &d.buckets {
        let lines = fmt::parse_bucket(b);
        let recs: Vec<String> = lines.iter().filter_map(|l| l.rec.as_ref().map(|r| r.json())).collect();
        buckets.insert(rel.clone(), json!(recs));
    }
    let mut content = serde_json::Map::new();
    for c in &d.content {
        content.insert(c.rel.clone(), json!(c.sha256));
    }
    json!({"buckets": buckets, "content": content, "tmp": d.tmp.len(), "other": d.other})
}

pub fn run_tri(ctx: &mut Ctx, sc: &Value, run_id: &str) -> Outcome {
    let mut outs: Vec<Outcome> = Vec::new();
    let mut disks: Vec<Value> = Vec::new();
    for (i, f) in crate::gen::PURE.iter().enumerate() {
        let mut sc2 = sc.clone();
        if let Some(steps) = sc2["steps"].as_array_mut() {
            for st in steps.iter_mut() {
                if st["k"] == "api" {
                    st["bin"] = json!(f.0);
                    st["mode"] = json!(if st["op"] == "list" || st["op"] == "ls" { "sync" } else { f.1 });
                }
            }
        }
        let keep = ctx.keep_dirs;
        ctx.keep_dirs = true;
        let it = Interp::new(ctx, &sc2, &format!("{run_id}f{i}"));
        let cache = it.cache.clone();
        let root = it.root.clone();
        let o = it.run();
        disks.push(disk_summary(&cache));
        ctx.keep_dirs = keep;
        if !keep {
            let _ = std::fs::remove_dir_all(&root);
        }
        outs.push(o);
    }
    let mut res = Outcome::default();
    let names = ["sync", "astd", "tokio"];
    let n = outs.iter().map(|o| o.log.len()).min().unwrap_or(0);
    if outs.iter().any(|o| o.log.len() != n) && outs.iter().all(|o| o.harness.is_none()) {
        res.viols.push(Viol { class: "flavour-diff".into(), sig: "flavour-diff/log-length".into(), msg: format!("step logs differ in length: {:?}", outs.iter().map(|o| o.log.len()).collect::<Vec<_>>()), step: n, scenario: None });
    }
    for i in 0..n {
        let rs: Vec<&Value> = outs.iter().map(|o| &o.log[i]["r"]).collect();
        if rs.iter().any(|r| r["r"] == "unsupported") {
            continue;
        }
        let ns: Vec<Value> = rs.iter().map(|r| norm_result(r)).collect();
        if ns[0] != ns[1] || ns[0] != ns[2] {
            let op = outs[0].log[i]["s"]["op"].as_str().unwrap_or("?").to_string();
            // which field differs first
            let mut field = "result".to_string();
            for k in ["r", "v", "sri", "len", "sha", "got", "n", "b", "meta", "dest", "entries", "errs", "dropped", "checked"] {
                if ns[0].get(k) != ns[1].get(k) || ns[0].get(k) != ns[2].get(k) {
                    field = k.to_string();
                    break;
                }
            }
            let brief = |v: &Value| -> String {
                if v["r"] == "ok" {
                    if field == "meta" {
                        let mut diffs = Vec::new();
                        for f in ["key", "sri", "time", "size", "metadata", "raw"] {
                            if ns.iter().any(|x| x["meta"].get(f) != ns[0]["meta"].get(f)) {
                                diffs.push(f);
                            }
                        }
                        format!("ok[{}]", diffs.join("+"))
                    } else {
                        "ok".to_string()
                    }
                } else {
                    format!("{}{}", v["r"].as_str().unwrap_or("?"), v["v"].as_str().map(|x| format!(":{x}")).unwrap_or_default())
                }
            };
            let sig = format!("flavour-diff/{}/{}/{}|{}|{}", op, field, brief(&ns[0]), brief(&ns[1]), brief(&ns[2]));
            res.viols.push(Viol { class: "flavour-diff".into(), sig, msg: format!("step {} ({}) differs across flavours:\n  {}: {}\n  {}: {}\n  {}: {}", i, outs[0].log[i]["s"], names[0], rs[0], names[1], rs[1], names[2], rs[2]), step: i, scenario: None });
            break; // later differences are consequences
        }
    }
    if res.viols.is_empty() && (disks[0] != disks[1] || disks[0] != disks[2]) {
        let mut which = "content";
        if disks[0]["buckets"] != disks[1]["buckets"] || disks[0]["buckets"] != disks[2]["buckets"] {
            which = "buckets";
        } else if disks[0]["tmp"] != disks[1]["tmp"] || disks[0]["tmp"] != disks[2]["tmp"] {
            which = "tmp";
        }
        res.viols.push(Viol { class: "flavour-diff".into(), sig: format!("flavour-diff/final-cache/{}", which), msg: format!("final caches decode differently ({}):\n sync: {}\n astd: {}\n tokio: {}", which, disks[0], disks[1], disks[2]), step: n, scenario: None });
    }
    // carry logs/probes of the sync run, steps of all; other-class violations of the single runs are kept (not owned by C12)
    for (i, o) in outs.into_iter().enumerate() {
        res.steps += o.steps;
        for (k, v) in o.faults {
            *res.faults.entry(k).or_insert(0) += v;
        }
        for (k, v) in o.probes {
            *res.probes.entry(k).or_insert(0) += v;
        }
        if i == 0 {
            res.log = o.log;
        }
        if o.harness.is_some() {
            res.harness = o.harness;
        }
        for v in o.viols {
            if v.class != "flavour-diff" {
                res.viols.push(v);
            }
        }
    }
    res
}
