// Independent reader/writer of the cacache on-disk index format (index-v5 bucket records).
use serde_json::Value;

use crate::hash::sha256_hex;

#[derive(Clone, Debug, PartialEq)]
pub struct Rec {
    pub key: String,
    pub integrity: Option<String>,
    pub time: u128,
    pub size: u64,
    pub metadata: Value,
    pub raw: Option<Vec<u8>>,
}

pub fn json_str(s: &str) -> String {
    let mut o = String::with_capacity(s.len() + 2);
    o.push('"');
    for c in s.chars() {
        match c {
            '"' => o.push_str("\\\""),
            '\\' => o.push_str("\\\\"),
            '\u{08}' => o.push_str("\\b"),
            '\u{0c}' => o.push_str("\\f"),
            '\n' => o.push_str("\\n"),
            '\r' => o.push_str("\\r"),
            '\t' => o.push_str("\\t"),
            c if (c as u32) < 0x20 => o.push_str(&format!("\\u{:04x}", c as u32)),
            c => o.push(c),
        }
    }
    o.push('"');
    o
}

/// Canonical JSON text of a value: sorted object keys (serde_json's default map), no whitespace.
pub fn value_text(v: &Value) -> String {
    match v {
        Value::Null => "null".into(),
        Value::Bool(b) => b.to_string(),
        Value::Number(n) => n.to_string(),
        Value::String(s) => json_str(s),
        Value::Array(a) => format!("[{}]", a.iter().map(value_text).collect::<Vec<_>>().join(",")),
        Value::Object(m) => {
            let mut ks: Vec<&String> = m.keys().collect();
            ks.sort();
            format!(
                "{{{}}}",
                ks.iter().map(|k| format!("{}:{}", json_str(k), value_text(&m[*k]))).collect::<Vec<_>>().join(",")
            )
        }
    }
}

impl Rec {
    pub fn json(&self) -> String {
        format!(
            "{{\"key\":{},\"integrity\":{},\"time\":{},\"size\":{},\"metadata\":{},\"raw_metadata\":{}}}",
            json_str(&self.key),
            match &self.integrity {
                Some(i) => json_str(i),
                None => "null".into(),
            },
            self.time,
            self.size,
            value_text(&self.metadata),
            match &self.raw {
                Some(r) => format!("[{}]", r.iter().map(|b| b.to_string()).collect::<Vec<_>>().join(",")),
                None => "null".into(),
            }
        )
    }
    /// the bytes an insert appends to the bucket file
    pub fn record(&self) -> String {
        let j = self.json();
        format!("\n{}\t{}", sha256_hex(j.as_bytes()), j)
    }
    pub fn from_json(text: &str) -> Option<Rec> {
        let v: Value = serde_json::from_str(text).ok()?;
        let o = v.as_object()?;
        let key = o.get("key")?.as_str()?.to_string();
        let integrity = match o.get("integrity") {
            None | Some(Value::Null) => None,
            Some(Value::String(s)) => Some(s.clone()),
            _ => return None,
        };
        let time = num_u128(o.get("time")?)?;
        let size = num_u128(o.get("size")?)?;
        if size > u64::MAX as u128 {
            return None;
        }
        let metadata = o.get("metadata")?.clone();
        let raw = match o.get("raw_metadata") {
            None | Some(Value::Null) => None,
            Some(Value::Array(a)) => {
                let mut r = Vec::new();
                for x in a {
                    let n = num_u128(x)?;
                    if n > 255 {
                        return None;
                    }
                    r.push(n as u8);
                }
                Some(r)
            }
            _ => return None,
        };
        Some(Rec { key, integrity, time, size: size as u64, metadata, raw })
    }
}

fn num_u128(v: &Value) -> Option<u128> {
    match v {
        Value::Number(n) => n.to_string().parse::<u128>().ok(),
        _ => None,
    }
}

#[derive(Clone, Debug)]
pub struct Line {
    pub start: usize, // offset of first byte of the line (after the preceding '\n')
    pub end: usize,   // offset one past the last byte (the following '\n' or EOF)
    pub rec: Option<Rec>,
    pub utf8: bool,
}

/// Split a bucket file into lines and decode the valid records (hash matches, JSON well-formed).
pub fn parse_bucket(bytes: &[u8]) -> Vec<Line> {
    let mut out = Vec::new();
    let mut start = 0usize;
    let n = bytes.len();
    let mut i = 0usize;
    loop {
        if i == n || bytes[i] == b'\n' {
            let raw = &bytes[start..i];
            let mut line = Line { start, end: i, rec: None, utf8: true };
            match std::str::from_utf8(raw) {
                Err(_) => line.utf8 = false,
                Ok(s) => {
                    // line readers strip one trailing '\r'
                    let s = s.strip_suffix('\r').unwrap_or(s);
                    let parts: Vec<&str> = s.split('\t').collect();
                    if parts.len() == 2 && sha256_hex(parts[1].as_bytes()) == parts[0] {
                        line.rec = Rec::from_json(parts[1]);
                        // a record whose integrity text is not an integrity value at all (unknown algorithm, no
                        // digest part) is a foreign record: ignored, like a record that fails its checksum
                        if let Some(r) = &line.rec {
                            if let Some(i) = &r.integrity {
                                if !sri_parses(i) {
                                    line.rec = None;
                                }
                            }
                        }
                    }
                }
            }
            out.push(line);
            if i == n {
                break;
            }
            start = i + 1;
        }
        i += 1;
    }
    out
}

/// the grammar the library's integrity parser accepts: whitespace-separated `<algorithm>-<digest>` items
pub fn sri_parses(s: &str) -> bool {
    s.split_whitespace().all(|h| {
        let mut it = h.trim().split('-');
        matches!(it.next(), Some("sha1") | Some("sha256") | Some("sha384") | Some("sha512") | Some("xxh3")) && it.next().is_some()
    })
}

/// What a lookup of `key` must return given the valid records of its bucket, in file order.
pub fn effective(lines: &[Line], key: &str) -> Option<Rec> {
    let mut cur = None;
    for l in lines {
        if let Some(r) = &l.rec {
            if r.key == key {
                cur = if r.integrity.is_some() { Some(r.clone()) } else { None };
            }
        }
    }
    cur
}
