#!/bin/bash
# trymut.sh <name> <check>... : apply seeded/<name>/patch.diff to /repo, run the given checks (quick), undo.
VERIF=$(cd "$(dirname "$0")/.." && pwd)
name=$1; shift
p=$VERIF/seeded/$name/patch.diff
log=$VERIF/seeded/$name/detect.log
: > $log
cd /repo
if [ -n "$(git status --porcelain -- src)" ]; then echo "REPO DIRTY, abort" | tee -a $log; exit 2; fi
if ! git apply $p 2>>$log; then echo "$name: patch does not apply" | tee -a $log; exit 2; fi
cd $VERIF
res=""
for c in "$@"; do
  out=$(VERIF_NO_EVIDENCE=1 VERIF_REPLAY_DIR=$VERIF/seeded/$name/replays ./check $c --tier quick 2>&1); rc=$?
  echo "=== $c rc=$rc" >> $log; echo "$out" | cut -c1-600 >> $log
  nsig=$(echo "$out" | grep -c "^VIOLATION")
  res="$res $c:rc$rc/$nsig"
done
git -C /repo checkout -- .
echo "$name ->$res" | tee -a $log
