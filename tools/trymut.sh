#!/bin/bash
# trymut.sh <name> <check>... : apply seeded/<name>/patch.diff to a scratch worktree of /repo's HEAD (never to /repo
# itself while anything else may be using it), run the given checks (quick) against that tree, remove the change.
VERIF=$(cd "$(dirname "$0")/.." && pwd)
wt=${TRYMUT_WT:-/tmp/mx}
name=$1; shift
p=$VERIF/seeded/$name/patch.diff
final=$VERIF/seeded/$name/detect.log
log=$final.new   # replaced only when the run is complete
: > $log; rm -rf $VERIF/seeded/$name/replays.new
if [ ! -d $wt ]; then git -C /repo worktree add --detach $wt HEAD >/dev/null 2>&1; fi
git -C $wt checkout -q --detach $(git -C /repo rev-parse HEAD); git -C $wt reset -q --hard
if ! git -C $wt apply $p 2>>$log; then echo "$name: patch does not apply" | tee -a $log; exit 2; fi
cd $VERIF
res=""
for c in "$@"; do
  out=$(VERIF_REPO=$wt VERIF_NO_EVIDENCE=1 VERIF_REPLAY_DIR=$VERIF/seeded/$name/replays.new ./check $c --tier quick 2>&1); rc=$?
  echo "=== $c rc=$rc" >> $log; echo "$out" | cut -c1-600 >> $log
  nsig=$(echo "$out" | grep -c "^VIOLATION")
  res="$res $c:rc$rc/$nsig"
done
git -C $wt reset -q --hard
echo "$name ->$res" | tee -a $log
mv $log $final; rm -rf $VERIF/seeded/$name/replays; [ -d $VERIF/seeded/$name/replays.new ] && mv $VERIF/seeded/$name/replays.new $VERIF/seeded/$name/replays
