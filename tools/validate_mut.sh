#!/bin/bash
# validate_mut.sh <name> <srcdir with patch.diff demo.rs notes.md>  -> /verif/seeded/<name>/{patch.diff,demo.rs,notes.md,validate.log}
# Confirms in a scratch worktree: applies, builds in 3 flavours, 38 baseline tests pass, demo fails with / passes without the change.
name=$1; src=$2
wt=/tmp/mw-$name
out=/verif/seeded/$name
mkdir -p $out
log=$out/validate.log
: > $log
git -C /repo worktree remove --force $wt >/dev/null 2>&1
/verif/tools/mkwt.sh $wt >/dev/null
cd $wt
if ! git apply --3way $src/patch.diff >>$log 2>&1; then echo "RESULT apply=FAIL" | tee -a $log; cd /; git -C /repo worktree remove --force $wt; exit 1; fi
if grep -rn '^<<<<<<<' src >/dev/null; then echo "RESULT apply=CONFLICT" | tee -a $log; cd /; git -C /repo worktree remove --force $wt; exit 1; fi
git diff HEAD -- src > $out/patch.diff
sleep 1; find src -name '*.rs' -exec touch {} +   # cargo's mtime fingerprints: never reuse a build of the other tree
cp $src/demo.rs $out/demo.rs; cp $src/notes.md $out/notes.md 2>/dev/null
b=ok
cargo build --offline >>$log 2>&1 || b=fail-astd
cargo build --offline --no-default-features --features mmap,link_to >>$log 2>&1 || b=fail-sync
cargo build --offline --no-default-features --features tokio-runtime,mmap,link_to >>$log 2>&1 || b=fail-tokio
t=$(cargo test --offline --workspace --no-fail-fast --lib 2>&1 | grep -E "^test result" | head -1)
mkdir -p tests; cp $src/demo.rs tests/demo.rs
feat=""; grep -q "link_to" tests/demo.rs && feat="--features link_to"
[ -n "$DEMO_FEATURES" ] && feat="$DEMO_FEATURES"   # e.g. "--no-default-features --features tokio-runtime" for a change only one flavour compiles
with=$(cargo test --offline $feat --test demo 2>&1 | grep -E "^test result" | tail -1)
git -c core.hooksPath=/dev/null reset -q --hard HEAD
sleep 1; find src -name '*.rs' -exec touch {} +
mkdir -p tests; cp $src/demo.rs tests/demo.rs
without=$(cargo test --offline $feat --test demo 2>&1 | grep -E "^test result" | tail -1)
echo "RESULT build=$b | baseline: $t | demo with mutant: $with | demo without: $without" | tee -a $log
cd /; git -C /repo worktree remove --force $wt
