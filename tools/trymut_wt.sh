#!/bin/bash
# like trymut.sh but against a scratch worktree (VERIF_REPO), for use while /repo is busy
VERIF=$(cd "$(dirname "$0")/.." && pwd)
wt=${TRYMUT_WT:-/tmp/cr}
name=$1; shift
git -C $wt checkout -q -- . ; git -C $wt apply $VERIF/seeded/$name/patch.diff || exit 2
res=""
for c in "$@"; do
  out=$(VERIF_REPO=$wt VERIF_NO_EVIDENCE=1 VERIF_REPLAY_DIR=$VERIF/seeded/$name/replays ./check $c --tier quick 2>&1); rc=$?
  echo "$out" | grep -E "signature" | head -4 | cut -c1-200
  res="$res $c:rc$rc/$(echo "$out" | grep -c '^VIOLATION')"
done
git -C $wt checkout -q -- .
echo "$name ->$res"
