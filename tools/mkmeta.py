#!/usr/bin/env python3
"""Writes seeded/<name>/meta.json and seeded/MATRIX.md from the validation and detection logs."""
import glob, json, os, re
V='/verif'
NEEDS={
 "C01A":("sync checked hard_link returns Ok early when the destination already is the content file's inode","hard_link_sync/hard_link_hash_sync repeated to the same destination after in-place damage of the content"),
 "C01B":("async copy() by key calls the unchecked copy","async (async-std/tokio) copy by key of a damaged content file"),
 "C02A":("sync Writer::close skips persisting when a file already exists at the content address","sync flavour + a damaged file already at that address (e.g. left by a crash), then a re-write of the same bytes"),
 "C02B":("async poll_write no longer shrinks the staging buffer and hashes all of it","async streamed Writer fed a chunk shorter than an earlier one"),
 "C03A":("make_mmap preallocates the temp file for every declared size","declared size > 1 MiB with fewer bytes written, then commit: data plus trailing zeros under the address of the data"),
 "C03B":("persist failure falls back to fs::copy straight onto the content path","rename fails (EXDEV) and the destination is missing, then a kill / torn write during the copy"),
 "C04B":("async close treats try_exists()==Ok(false) as success after a failed persist","the rename of the temp file into the content store fails (async writers only): index entry without content"),
 "C05A":("find(): key test and tombstone test swapped","a removal record of a foreign key in the same bucket file after my key's last write"),
 "C05B":("SyncWriter::commit skips the index append when the live entry has the same integrity","sync re-write of identical content to a live key with different metadata/size/time"),
 "C06A":("bucket_entries_async stops at the first invalid-UTF-8 line","invalid-UTF-8 garbage line followed by further appends, looked up through an async entry point"),
 "C06B":("sync bucket parser uses entry.split_at(64)","a damaged line > 64 bytes that is valid UTF-8 with a multi-byte character straddling byte 64"),
 "C07A":("sync Writer::close uses persist_noclobber","write of already-present content racing remove_hash: EEXIST then ENOENT, write fails though no serial order allows it"),
 "C07B":("sync index insert appends with write!() (four write calls)","two concurrent writers/removers of the same key interleave inside the append: spliced records"),
 "C08A":("SyncWriter::commit deletes the just-persisted content when the commit is rejected","rejected bytes equal content already mapped by some key: that key becomes unreadable"),
 "C08B":("async Writer::commit returns Ok early for key-less writers, before the checks","async by-address writer (open_hash) with a wrong declared size or integrity"),
 "C09A":("remove_fully also deletes the content of every earlier entry of that key","write a=X, b=X, overwrite a=Y, remove_fully(a): X disappears, b unreadable"),
 "C09B":("ls() dedup keeps the entry with the largest time field","entry written with an explicit time ahead of the clock, then removed: listing keeps it"),
 "C10A":("ls() dedup keeps the newest-by-time record instead of the last appended","re-write with WriteOpts::time older than the record it replaces"),
 "C10B":("listing reads only the last 64 KiB of each bucket","the latest record of a key exceeds 64 KiB (large metadata)"),
 "C11A":("now() returns max(wall clock, last+1) from a process-wide atomic","more than one default-time insert per millisecond in one process"),
 "C11B":("async Writer::commit always records the computed integrity instead of the supplied one","async WriteOpts::integrity(multi-hash).open() path"),
 "C12A":("async commit checks size before integrity, sync keeps integrity first","WriteOpts writer with both size and integrity wrong: sync IntegrityError, async SizeMismatch"),
 "C12B":("async remove_fully skips content that is already missing and deletes the bucket","entry pointing at missing content (shared content fully removed, or remove_hash first): sync Err, async Ok"),
 "C13A":("sync Writer::close unlinks an existing content file before the rename","sync write of already-stored bytes whose rename fails: other keys sharing the content become unreadable"),
 "C13B":("sync index insert uses write instead of write_all","a short write on the index append: call reports success, torn line ignored"),
 "C14A":("commit deletes the content it just persisted when size/integrity rejects","rejected writer carried the same bytes as an earlier successful commit"),
 "C14B":("sync close: persist() replaced by keep()+fs::rename","the final rename fails: commit errors correctly but the temp file stays in tmp/"),
 "C15A":("bulk read deletes the content file when its bytes fail the integrity check","a content file damaged on disk, read through read*/read_hash*"),
 "C15B":("remove_hash canonicalizes the content path before unlinking","link_to entry, then remove_hash on its address: the caller's file outside the cache is deleted"),
 "C16A":("async poll_write: grow-only staging buffer, hasher fed the whole buffer","async streaming Writer with a later chunk shorter than an earlier one"),
 "C16B":("write_sync_with_algo dedup shortcut looks up Integrity::from(data) (always sha256)","same bytes already stored under sha256, re-written through this entry point with another algorithm"),
 "C17A":("bucket lines deserialised into a zero-copy struct with &str fields","key/integrity JSON string containing an escape (quote, backslash, control char)"),
 "C17B":("bucket path built with {:x} instead of {:02x} per byte","a key whose SHA-1 has a first or second byte below 0x10 + an independent reader/writer"),
 "C18A":("copy_unchecked opens the destination without truncating","sync copy entry point onto an existing destination longer than the entry"),
 "C18B":("hard_link: reader.check().and(hard_link_unchecked(..)) evaluates the link eagerly","damaged content + a checked hard-link entry point: error returned, link left behind"),
 "C19A":("linker consume() returns early once bytes read reach the declared size","declared size smaller than the target and exactly that many bytes read before commit"),
 "C19B":("relative target made absolute at commit time instead of open time","relative path + open-then-commit API + a cwd change in between"),
 "C20A":("write_mapped bounds test checks where a chunk starts instead of where it ends","declared size 1..1 MiB and a single write straddling it: out-of-range slice panic"),
 "C20B":("bucket readers skip every line read error","bucket path is a directory / persistent EIO: lookups spin forever"),
}
rows=[]
for d in sorted(glob.glob(V+'/seeded/C*/')):
    name=os.path.basename(d.rstrip('/'))
    prop=name[:3]
    val=''
    try:
        val=[l for l in open(d+'validate.log') if l.startswith('RESULT')][-1].strip()
    except Exception: pass
    det={}
    for f in sorted(glob.glob(d+'detect*.log')):
        for l in open(f):
            m=re.match(r'^(\S+) ->(.*)$',l.strip())
            if m:
                for tok in m.group(2).split():
                    c,r=tok.split(':')
                    rc=int(re.match(r'rc(\d+)',r).group(1)); n=int(r.split('/')[1])
                    det[c]={"exit":rc,"signatures":n,"log":os.path.basename(f)}
    what,needs=NEEDS.get(name,("",""))
    caught=[c for c,v in det.items() if v["exit"]==1]
    missed=[c for c,v in det.items() if v["exit"]==0]
    meta={"name":name,"breaks_property":prop,"change":what,"needs_to_manifest":needs,
          "confirmed_in_scratch_worktree":{"builds_in_3_flavours":"build=ok" in val,"baseline_38_tests_pass":"38 passed" in val,"demo_fails_with_change":"demo with mutant: test result: FAILED" in val,"demo_passes_without":"demo without: test result: ok" in val,"how":"tools/validate_mut.sh (scratch worktree under /tmp, removed afterwards)","raw":val},
          "checks_run_against_it":det,"caught_by":caught,"not_caught_by":missed,
          "how_run":"tools/trymut.sh: git -C /repo apply patch.diff; ./check <ID> --tier quick; git -C /repo checkout -- ."}
    json.dump(meta,open(d+'meta.json','w'),indent=1)
    rows.append((name,prop,what,caught,missed))
with open(V+'/seeded/MATRIX.md','w') as f:
    f.write("# Seeded changes: which checks catch which (quick tier, default seed)\n\n| change | breaks | what it is | caught by | run but silent |\n|---|---|---|---|---|\n")
    for name,prop,what,caught,missed in rows:
        mark = "" if prop in caught else (" **(own property's check silent)**" if caught else " **(MISSED)**")
        f.write(f"| {name} | {prop} | {what} | {', '.join(caught) or '-'}{mark} | {', '.join(missed) or '-'} |\n")
print(len(rows),"mutants;", sum(1 for r in rows if r[3]), "caught by at least one check;", sum(1 for r in rows if r[1] in r[3]), "caught by own property's check")
