#!/usr/bin/env python3
"""Writes seeded/<name>/meta.json and seeded/MATRIX.md from the validation and detection logs."""
import glob, json, os, re
V='/verif'
NEEDS={
 "C01A":("sync checked hard_link returns Ok early when the destination already is the content file's inode","hard_link_sync/hard_link_hash_sync repeated to the same destination after in-place damage of the content"),
 "C01B":("async copy() by key calls the unchecked copy","async (async-std/tokio) copy by key of a damaged content file"),
 "C02A":("sync Writer::close skips persisting when a file already exists at the content address","sync flavour + a damaged file already at that address (e.g. left by a crash), then a re-write of the same bytes"),
 "C02B":("async poll_write no longer shrinks the staging buffer and hashes all of it","async streamed Writer fed a chunk shorter than an earlier one"),
 "C03A":("make_mmap preallocates the temp file for every declared size","declared size > 1 MiB with fewer bytes written, then commit: data plus trailing zeros under the address of the data"),
 "C03B":("persist failure falls back to fs::copy straight onto the content path","rename fails (EXDEV) and the destination is missing, then a kill / torn write during the copy"),
 "C04B":("async close treats try_exists()==Ok(false) as success after a failed persist","the rename of the temp file into the content store fails (async writers only): index entry without content"),
 "C05A":("find(): key test and tombstone test swapped","a removal record of a foreign key in the same bucket file after my key's last write"),
 "C05B":("SyncWriter::commit skips the index append when the live entry has the same integrity","sync re-write of identical content to a live key with different metadata/size/time"),
 "C06A":("bucket_entries_async stops at the first invalid-UTF-8 line","invalid-UTF-8 garbage line followed by further appends, looked up through an async entry point"),
 "C06B":("sync bucket parser uses entry.split_at(64)","a damaged line > 64 bytes that is valid UTF-8 with a multi-byte character straddling byte 64"),
 "C07A":("sync Writer::close uses persist_noclobber","write of already-present content racing remove_hash: EEXIST then ENOENT, write fails though no serial order allows it"),
 "C07B":("sync index insert appends with write!() (four write calls)","two concurrent writers/removers of the same key interleave inside the append: spliced records"),
 "C08A":("SyncWriter::commit deletes the just-persisted content when the commit is rejected","rejected bytes equal content already mapped by some key: that key becomes unreadable"),
 "C08B":("async Writer::commit returns Ok early for key-less writers, before the checks","async by-address writer (open_hash) with a wrong declared size or integrity"),
 "C09A":("remove_fully also deletes the content of every earlier entry of that key","write a=X, b=X, overwrite a=Y, remove_fully(a): X disappears, b unreadable"),
 "C09B":("ls() dedup keeps the entry with the largest time field","entry written with an explicit time ahead of the clock, then removed: listing keeps it"),
 "C10A":("ls() dedup keeps the newest-by-time record instead of the last appended","re-write with WriteOpts::time older than the record it replaces"),
 "C10B":("listing reads only the last 64 KiB of each bucket","the latest record of a key exceeds 64 KiB (large metadata)"),
 "C11A":("now() returns max(wall clock, last+1) from a process-wide atomic","more than one default-time insert per millisecond in one process"),
 "C11B":("async Writer::commit always records the computed integrity instead of the supplied one","async WriteOpts::integrity(multi-hash).open() path"),
 "C12A":("async commit checks size before integrity, sync keeps integrity first","WriteOpts writer with both size and integrity wrong: sync IntegrityError, async SizeMismatch"),
 "C12B":("async remove_fully skips content that is already missing and deletes the bucket","entry pointing at missing content (shared content fully removed, or remove_hash first): sync Err, async Ok"),
 "C13A":("sync Writer::close unlinks an existing content file before the rename","sync write of already-stored bytes whose rename fails: other keys sharing the content become unreadable"),
 "C13B":("sync index insert uses write instead of write_all","a short write on the index append: call reports success, torn line ignored"),
 "C14A":("commit deletes the content it just persisted when size/integrity rejects","rejected writer carried the same bytes as an earlier successful commit"),
 "C14B":("sync close: persist() replaced by keep()+fs::rename","the final rename fails: commit errors correctly but the temp file stays in tmp/"),
 "C15A":("bulk read deletes the content file when its bytes fail the integrity check","a content file damaged on disk, read through read*/read_hash*"),
 "C15B":("remove_hash canonicalizes the content path before unlinking","link_to entry, then remove_hash on its address: the caller's file outside the cache is deleted"),
 "C16A":("async poll_write: grow-only staging buffer, hasher fed the whole buffer","async streaming Writer with a later chunk shorter than an earlier one"),
 "C16B":("write_sync_with_algo dedup shortcut looks up Integrity::from(data) (always sha256)","same bytes already stored under sha256, re-written through this entry point with another algorithm"),
 "C17A":("bucket lines deserialised into a zero-copy struct with &str fields","key/integrity JSON string containing an escape (quote, backslash, control char)"),
 "C17B":("bucket path built with {:x} instead of {:02x} per byte","a key whose SHA-1 has a first or second byte below 0x10 + an independent reader/writer"),
 "C18A":("copy_unchecked opens the destination without truncating","sync copy entry point onto an existing destination longer than the entry"),
 "C18B":("hard_link: reader.check().and(hard_link_unchecked(..)) evaluates the link eagerly","damaged content + a checked hard-link entry point: error returned, link left behind"),
 "C19A":("linker consume() returns early once bytes read reach the declared size","declared size smaller than the target and exactly that many bytes read before commit"),
 "C19B":("relative target made absolute at commit time instead of open time","relative path + open-then-commit API + a cwd change in between"),
 "C20A":("write_mapped bounds test checks where a chunk starts instead of where it ends","declared size 1..1 MiB and a single write straddling it: out-of-range slice panic"),
 "C20B":("bucket readers skip every line read error","bucket path is a directory / persistent EIO: lookups spin forever"),
}

NEEDS.update({
 "C01C":("sync copy remembers (len, mtime) of content it verified and skips the check on a match","same process: a successful checked copy, then damage that keeps size and mtime, then a second checked copy"),
 "C01D":("async read of buffers > 1 MiB verifies on the blocking pool and discards the result","async read/read_hash of a damaged content file still larger than 1 MiB"),
 "C02C":("write_mapped bounds check off by one; fallback set_len(pos) instead of seeking","declared size 1..1 MiB and two or more chunks through open_sync/open_hash_sync/async open_hash"),
 "C02D":("find()/find_async() skip bucket lines lacking the raw key text","keys containing a quote, backslash or control character"),
 "C03D":("AsyncWriter::close renames to the content address before the preallocated tail is truncated","async by-address writer, declared size larger than written, a kill (or ftruncate failure) between rename and truncate"),
 "C04C":("sync index insert compacts a bucket > 4096 bytes by rewriting it in place (O_TRUNC)","overwrite of a key whose bucket is that large, killed between the truncate and the end of the write"),
 "C04D":("sync bucket parser uses split_at(64)","an index append torn after 2..64 bytes: every sync lookup of the key panics"),
 "C05C":("both bucket readers skip lines longer than 16 KiB","a successful write with ~4.5 KiB of raw metadata or large JSON metadata: the older entry resurfaces"),
 "C05D":("remove_fully returns Ok early when the content file is already gone, before the bucket is removed","remove_fully of a key whose content was removed earlier (shared content / remove_hash): key still found"),
 "C06C":("index checksum compared as decoded bytes (accepts upper-case hex)","a bit-5 flip of a hex letter in a record's checksum leaves the damaged record effective"),
 "C06D":("sync bucket reader treats the end of BufReader's buffered slice as end of line","an undamaged record straddling an 8192-byte offset"),
 "C07C":("insert_async opens with write(true) and seeks to the end instead of append(true)","two async writers of one key both seek before either writes: a record is overwritten"),
 "C07D":("remove_hash also removes the emptied shard directories","writer of the same content: mkdir -p, then the remover's unlink+rmdir, then the writer's rename fails with ENOENT"),
 "C08C":("async commit skips the size check whenever an integrity is declared","async writer declaring a correct integrity and a wrong size: commit Ok"),
 "C08D":("WriteOpts::size drops a declared size of 0","declared size 0 with at least one byte written: Ok instead of SizeMismatch(0, n)"),
 "C09C":("sync remove_hash runs remove_dir_all on the shard directory when it holds exactly one entry","removing an absent address whose shard directory holds one other content file (digests share 4 hex digits)"),
 "C09D":("async remove_fully returns Ok early on missing content, bucket never deleted","content already gone (two keys sharing it, or remove_hash first), async flavour"),
 "C10C":("remove_fully renames the bucket to <bucket>.rm inside index-v5 before deleting the content","a full removal whose content deletion fails strands that file: listing shows a key lookup cannot find"),
 "C11D":("sync streaming writer fixes the default timestamp at open, not at commit","SyncWriter without explicit time and the wall clock moving between open and commit"),
 "C12C":("SyncWriter::commit records the computed integrity instead of the declared multi-hash one","keyed sync write declaring two or more hashes: index record and later reads differ from the async flavours"),
 "C13C":("sync bucket reader skips every line read error","a read(2) of the bucket that keeps failing: the lookup never returns"),
 "C13D":("insert_async no longer flushes after write_all","the write(2) of the async index append fails: write() returns Ok while the key keeps its old value"),
 "C14C":("finish_mapped no longer truncates the preallocated tail","declared size, fewer bytes, rejected commit, while the written bytes equal content another key holds"),
 "C14D":("async rejected commit tombstones its key","the key already held a committed value: it disappears after the rejected commit"),
 "C15C":("async writers fall back to the system temp dir when the temp file cannot be created under <cache>/tmp","that one open failing after the mkdir succeeded (fault injection, concurrent clear)"),
 "C15D":("sync bucket reader rewrites (compacts) a bucket holding more than 64 entries","the same key written 65+ times, then a sync read-only call"),
 "C16B":("write_sync_with_algo dedup shortcut looks up Integrity::from(data) (always sha256)","same bytes already stored under sha256, re-written through this entry point with another algorithm"),
 "C16C":("AsyncWriter::close unlinks the existing content file before persisting the new one","an async re-write of equal data with a reader or a crash in the gap"),
 "C16D":("write_mapped overflow seeks to End(0) instead of Start(pos)","declared size below the data length with an unaligned crossing chunk: stored copy overwritten with padded bytes"),
 "C17C":("sync find() picks the record with the greatest time instead of the last appended","a later-appended record carrying an earlier time (explicit time, removal after a future-stamped write)"),
 "C17D":("bucket_entries_async reads 8 KiB chunks and decodes each lossily","async lookup of a bucket > 8 KiB with a non-ASCII character straddling a chunk boundary"),
 "C18C":("async checked copy verifies while streaming; on failure removes the destination only if it did not exist before","async copy of damaged content onto an existing destination: damaged bytes left there"),
 "C18D":("checked hard link remembers (size, mtime) of verified content and skips re-hashing","same process: link, damage preserving size+mtime, link again"),
 "C19C":("create_symlink tolerates any AlreadyExists instead of checking that the path resolves","link F1, delete F1 (dangling), link F2 with the same bytes: Ok but reads fail"),
 "C19D":("link commit removes the symlink before returning a size/integrity mismatch","content already linked under another key, second link with a wrong declaration: the first entry stops reading"),
 "C20C":("AsyncWriter::close retries forever on NotFound","the writer's temp file disappears between open and commit (open, write, clear, commit): commit hangs"),
 "C20D":("read_sync pre-allocates its buffer from the size recorded in the index","raw index insert with a size above isize::MAX, then read_sync: capacity overflow panic"),
 "C01E":("sync checked copy streams the verified reader into a destination opened without truncation","copy_sync/copy_hash_sync onto an existing destination longer than the entry: Ok, but old tail left behind"),
 "C01F":("sync Reader builds its IntegrityChecker lazily on the first non-empty read","content file of a non-empty entry truncated to 0 bytes, then a sync streamed read / checked copy / hard link / reflink"),
 "C02E":("async poll_flush takes the memory map: later chunks are written at file offset 0","async writer with a declared size <= 1 MiB, a flush between chunks, more chunks after it"),
 "C03F":("async writer state after a dropped write future (see notes.md)","a write future dropped after one poll, then further writes and a commit (async writers)"),
 "C04F":("tokio line stream rebuilt with try_unfold (fused after the first error)","tokio flavour + an index line that is not valid UTF-8 (torn inside a multi-byte character) followed by later appends"),
 "C05E":("async commit appends the index record before the declared-size check","WriteOpts::size(n).open() with a different number of bytes streamed: SizeMismatch returned, record visible"),
 "C06E":("sync bucket reader remembers per bucket how far it has parsed and reads only the appended tail","a process that looked at a bucket before it was damaged in place (same or greater length) looks again"),
 "C06F":("listing skips a bucket whose last line contains \"integrity\":null, (unverified)","a torn or damaged last line that looks like a tombstone after a live record"),
 "C07E":("sync index insert appends with write!() (four write calls per record)","two concurrent appenders to one bucket: records interleave (submitted against C05/C11/C16/C17 by four agents; it is a C07 break)"),
 "C08E":("SyncWriter::commit returns Ok early when the key already maps to the computed integrity, before the declaration checks","sync keyed re-write of the key's current content with a wrong declared size or integrity"),
 "C08F":("write_mapped delegates to the slice writer: no spill past the mapping","declared size <= 1 MiB smaller than the data: WriteZero / short data instead of SizeMismatch"),
 "C09E":("index::delete hand-formats the tombstone without JSON escaping of the key","removing a key containing a quote, backslash or control character: the tombstone is ignored, the key stays"),
 "C09F":("process-wide memo of tmp directories already created, never invalidated by clear","one process: write, clear, write again -> NotFound"),
 "C10E":("ls() memoises parsed buckets per process, validated by file length only","a bucket changed to different content of the same length between two listings by one process"),
 "C11E":("commit skips the index append when integrity, size and JSON metadata equal the live entry","re-commit of a key with identical content/metadata but different raw metadata or time"),
 "C12E":("AsyncWriter::close uses persist_noclobber","write, damage the content file, re-write the same data: sync repairs, async keeps the damaged file"),
 "C12F":("only the sync opens take the algorithm from a declared integrity","declared integrity of another algorithm than sha256, no explicit algorithm: sync Ok, async IntegrityError"),
 "C13E":("commit removes the just-persisted content when the index insert fails","a failing system call in the index update while another entry shares the content (also submitted against C04)"),
 "C13F":("bucket_entries_async stops at a damaged record instead of skipping it","a torn record from a short write + error, then a later successful write, read through the async API"),
 "C14E":("sync keyed writer persists under the caller-declared integrity","sync open_sync commit rejected by the integrity check where the declared integrity names other stored content"),
 "C14F":("write_mapped seeks to end of file instead of pos after the declared size is outgrown","declared size <= 1 MiB smaller than the data, one chunk straddling it, same data already stored under a key"),
 "C15E":("sync close: persist_noclobber, then rewrite in place through fs::copy when lengths differ","a link_to symlink or a hard-linked extraction at that address, then a sync write of the same bytes: file outside the cache changed"),
 "C15F":("thread-local memo of the last bucket path keyed by key only","the same key used in two cache directories back to back on one thread"),
 "C16E":("finish_mapped no longer cuts the preallocated tail","declared-size writer writing fewer bytes than declared, re-writing stored data: data+zeros renamed over the good copy"),
 "C17F":("insert_async no longer flushes after write_all","tokio flavour: the append is only queued when the call returns; the caller's next lookup/removal can overtake it"),
 "C18E":("same-file shortcut hoisted ahead of verification in checked copy","hard_link to a destination, in-place damage, then checked copy to the same path returns Ok"),
 "C18F":("hard_link_unchecked returns Ok on AlreadyExists when the destination has the same length","hard-link entry point onto an existing file of equal size and different bytes"),
 "C19E":("same_file compares symlink_metadata","link_to a file, then any copy* back onto the linked path: the target is truncated"),
 "C19F":("absolute_target folds '..' textually","target spelled through a directory symlink followed by '..': the stored link names the wrong path"),
 "C20E":("poll_write returns a stale, larger write count","a write future dropped in flight, then write_all with a shorter buffer: panics 'mid > len'"),
 "C20F":("bucket line parser uses split_at(64)","a valid-UTF-8 line with a multi-byte character across byte 64: every reader of that bucket panics"),
 "C01G":("sync read(): open + presize from metadata, read and integrity check only inside `if len > 0`","content file of a non-empty entry emptied to 0 bytes, read through read_sync / read_hash_sync"),
 "C01H":("async hard_link by key falls back to the unchecked copy on any error when the destination is absent","damaged content + the async hard_link entry point: the integrity error is swallowed, damaged bytes delivered with Ok"),
 "C02H":("process-wide memo of content shard directories already created","one process: write X, clear (or the cache directory deleted), write the same bytes again -> ENOENT"),
 "C03H":("async poll_write hashes the caller's current buffer at the reporting poll instead of the bytes handed to the blocking write","a write future dropped mid-flight, then further writes / flush / commit: file holds the abandoned bytes, address digests other data"),
 "C04H":("async write()/write_with_algo() store the content and append the index record concurrently (join!)","a kill or I/O fault after the index append and before the content rename - only in schedules where the pool thread of the index append wins"),
 "C06G":("insert skips the append when the bucket already ends with the entry's JSON (checksum and newline not compared)","the last record damaged in its checksum or leading newline, then a byte-identical re-insert"),
 "C06H":("bucket readers stable-sort the parsed records by time","times that do not increase along the file: explicit backwards times, a removal stamped in the future, an old record duplicated at the end"),
 "C07G":("the first writer a process creates for a cache sweeps <cache>/tmp","two processes: P's first write deletes the temp file of a writer still open in Q; Q's commit fails"),
 "C07H":("insert truncates a bucket over 128 KiB with set_len(0) before appending","a key with a long history and a reader scheduled between the truncate and the append: a never-removed key is absent"),
 "C08G":("async Writer forwards poll_write_vectored to the inner writer without counting the bytes","write_vectored with a declared size: a correct declaration is rejected, a too-small one accepted"),
 "C09G":("process-wide memo of content paths seen present answers exists(); remove_fully does not invalidate it","one process: write, exists (true), remove_fully, exists -> still true"),
 "C09H":("clear skips top-level entries whose DirEntry::file_type() is not a directory","a cache whose content-v2 or index-v5 is a symlink to a directory elsewhere: clear leaves it"),
 "C10G":("find/find_async skip bucket lines that do not contain \"key\":\"<raw key>\" before parsing","a key that JSON escapes (quote, backslash, tab, newline): listed, but lookups return None"),
 "C10H":("ls reads each bucket with read_to_string and treats an invalid-UTF-8 read as an empty bucket","an index append cut inside a multi-byte character (non-ASCII key): lookup finds the key, listing drops it"),
 "C11G":("the sync bucket reader seeks to the last 64 KiB of the bucket file","an entry whose line is longer than 64 KiB: lost to metadata_sync / read_sync / list_sync"),
 "C11H":("sync insert writes the record through a BufWriter (two write calls from 8 KiB)","two writers committing one key concurrently with records of 8 KiB or more: interleaved lines (a C07 break)"),
 "C12G":("AsyncWriter::new memoises created <cache>/tmp directories per process","write, clear, another async write in one process: async fails, sync succeeds"),
 "C12H":("find_async takes the newest line of the key and then parses its integrity; sync find folds","newest record with a valid checksum and an integrity text that does not parse: async None, sync the earlier record"),
 "C13G":("process-wide memo of created content directories, recorded before the mkdir has succeeded","one failing mkdir of a content directory, then the same write again in the same process: ENOENT at the rename forever"),
 "C13H":("list_sync turns every directory-walk error below the index root into 'no entries'","a failing open of a bucket directory during the walk (EMFILE, EACCES, EIO): entries silently omitted"),
 "C14G":("SyncWriter::commit: sized.and(index::insert(..)) evaluates the insert eagerly","sync keyed writer with a declared size that differs from the bytes written: SizeMismatch returned, entry appended"),
 "C14H":("sync insert builds the line in a thread-local buffer cleared only after a successful insert","an insert that fails at the open or write of its bucket, then the same thread's next successful insert: the failed key's record rides along"),
 "C15G":("bucket_path built with format!(\"{}\", cache.display())","a cache directory whose path is not valid UTF-8: index files go to a sibling directory named with U+FFFD"),
 "C15H":("insert_async and bucket_entries_async share a helper that opens with read+create+append","an async lookup of a key whose bucket file is missing but whose directory exists: creates an empty bucket file"),
 "C16G":("process-wide memo of content paths already persisted lets close skip the rename; only remove_hash clears it","one process: store bytes, clear / remove_fully / external deletion, store the same bytes again: address returned, no file"),
 "C17H":("content_path built with format!(\"{}\", cache.display())","a cache directory whose path is not valid UTF-8: content goes to a sibling directory; the library reads its own data, nobody else finds it"),
 "C18G":("sync checked copy / hard_link verify content up to 1 MiB through an mmap helper whose zero-length case returns Ok","a non-empty entry whose content file was truncated to 0 bytes: checked sync copy / hard link succeed"),
 "C18H":("copy_unchecked_async runs in spawn_blocking with display().to_string() paths","an async copy entry point and a destination or cache path that is not valid UTF-8: Ok, bytes land in a file named with U+FFFD"),
 "C19G":("absolute_target caches current_dir() in a process-wide OnceLock","one process links a relative target, changes its working directory, links another relative target"),
 "C19H":("async ToLinker::commit checks a declared integrity only if it has a hash of the linker's algorithm","async link_to with a declared integrity of another algorithm that is the address of other data: accepted"),
 "C20G":("AsyncWriter scratch buffer grown with reserve(buf.len() - capacity())","one async writer fed chunks sized large, then small, then medium: subtract with overflow / capacity overflow panic"),
 "C20H":("sync insert takes a <bucket>.lock file with create_new, retrying every 1 ms without bound","a lock file left behind (process killed mid-append): every later write/remove of that key hangs"),
 "F8":("re-introduces repaired defect F8: the sync bucket reader treats a failing read as end of file","one EIO on a read of a bucket: stale or partial results returned as success"),
 "H1":("hand-written must-catch of DESIGN section 3: content copied straight onto the content path instead of renamed","any write: the content path is visible before it holds the data"),
})

rows=[]
HAND={'F8':'C13','H1':'C03'}
OWN={'C11H':'C07'}
for d in sorted(glob.glob(V+'/seeded/C*/'))+[V+'/seeded/F8/',V+'/seeded/H1/']:
    name=os.path.basename(d.rstrip('/'))
    prop=HAND.get(name,OWN.get(name,name[:3]))
    val=''
    try:
        val=[l for l in open(d+'validate.log', errors='replace') if l.startswith('RESULT')][-1].strip()
    except Exception: pass
    det={}
    for f in sorted(glob.glob(d+'detect*.log')):
        for l in open(f, errors='replace'):
            m=re.match(r'^(\S+) ->(.*)$',l.strip())
            if m:
                for tok in m.group(2).split():
                    c,r=tok.split(':')
                    rc=int(re.match(r'rc(\d+)',r).group(1)); n=int(r.split('/')[1])
                    det[c]={"exit":rc,"signatures":n,"log":os.path.basename(f)}
    what,needs=NEEDS.get(name,("",""))
    caught=[c for c,v in det.items() if v["exit"]==1]
    missed=[c for c,v in det.items() if v["exit"]==0]
    meta={"name":name,"breaks_property":prop,"change":what,"needs_to_manifest":needs,
          "confirmed_in_scratch_worktree":{"builds_in_3_flavours":"build=ok" in val,"baseline_38_tests_pass":"38 passed" in val,"demo_fails_with_change":"demo with mutant: test result: FAILED" in val,"demo_passes_without":"demo without: test result: ok" in val,"how":"tools/validate_mut.sh (scratch worktree under /tmp, removed afterwards)","raw":val},
          "origin":"written by hand (no sub-agent, no separate demonstration: the checks are the demonstration)" if name in HAND else "fresh sub-agent given only the property text and a scratch worktree",
          "checks_run_against_it":det,"caught_by":caught,"not_caught_by":missed,
          "how_run":"tools/trymut.sh: patch.diff applied to a scratch worktree of /repo's HEAD; VERIF_REPO=<worktree> ./check <ID> --tier quick; worktree reset"}
    json.dump(meta,open(d+'meta.json','w'),indent=1)
    rows.append((name,prop,what,caught,missed))
with open(V+'/seeded/MATRIX.md','w') as f:
    f.write("# Seeded changes: which checks catch which (quick tier, default seed)\n\n| change | breaks | what it is | caught by | run but silent |\n|---|---|---|---|---|\n")
    for name,prop,what,caught,missed in rows:
        mark = "" if prop in caught else (" **(own property's check silent)**" if caught else " **(MISSED)**")
        f.write(f"| {name} | {prop} | {what} | {', '.join(caught) or '-'}{mark} | {', '.join(missed) or '-'} |\n")
print(len(rows),"mutants;", sum(1 for r in rows if r[3]), "caught by at least one check;", sum(1 for r in rows if r[1] in r[3]), "caught by own property's check")
