#!/bin/bash
# mkwt.sh <dir> : scratch git worktree of /repo at HEAD with Cargo.lock and a warm target dir
set -e
d=$1
git -C /repo worktree add --detach "$d" HEAD >/dev/null 2>&1
cp /repo/Cargo.lock "$d/Cargo.lock"
cp -r /repo/target "$d/target"
echo "$d"
