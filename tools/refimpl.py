#!/usr/bin/env python3
"""Independent reference implementation of the cacache on-disk format (index-v5 / content-v2).

Shares no code with the library or with the simulator (python3 hashlib/json/base64 only).
  refimpl.py dump <cache>            -> JSON: live entries per key, every record per bucket, content files + digest check
  refimpl.py append <cache> <json>   -> append one record (reference writer)
  refimpl.py digest <algo> <file>    -> sri string of a file (sha1/sha256/sha384/sha512)
"""
import base64, hashlib, json, os, sys

ALGOS = {"sha1": hashlib.sha1, "sha256": hashlib.sha256, "sha384": hashlib.sha384, "sha512": hashlib.sha512}

def bucket_rel(key):
    h = hashlib.sha1(key.encode("utf-8")).hexdigest()
    return os.path.join("index-v5", h[0:2], h[2:4], h[4:])

def content_rel(sri):
    first = sri.split()[0]
    algo, b64 = first.split("-", 1)
    hx = base64.b64decode(b64).hex()
    return os.path.join("content-v2", algo, hx[0:2], hx[2:4], hx[4:])

def parse_bucket(raw):
    recs = []
    for line in raw.split(b"\n"):
        try:
            s = line.decode("utf-8")
        except UnicodeDecodeError:
            continue
        if s.endswith("\r"):
            s = s[:-1]
        parts = s.split("\t")
        if len(parts) != 2:
            continue
        if hashlib.sha256(parts[1].encode("utf-8")).hexdigest() != parts[0]:
            continue
        try:
            obj = json.loads(parts[1], parse_float=lambda x: ("float", x), parse_int=lambda x: ("int", x))
        except ValueError:
            continue
        if not isinstance(obj, dict) or not isinstance(obj.get("key"), str):
            continue
        integ = obj.get("integrity")
        if integ is not None and not isinstance(integ, str):
            continue
        t, sz = obj.get("time"), obj.get("size")
        if not (isinstance(t, tuple) and t[0] == "int" and isinstance(sz, tuple) and sz[0] == "int"):
            continue
        if "metadata" not in obj:
            continue
        recs.append({"key": obj["key"], "integrity": integ, "time": t[1], "size": sz[1], "json": parts[1]})
    return recs

def dump(cache):
    out = {"buckets": {}, "live": {}, "content": {}}
    idx = os.path.join(cache, "index-v5")
    for root, _dirs, files in os.walk(idx):
        for f in sorted(files):
            p = os.path.join(root, f)
            rel = os.path.relpath(p, cache)
            with open(p, "rb") as fh:
                recs = parse_bucket(fh.read())
            out["buckets"][rel] = [r["json"] for r in recs]
            for r in recs:
                if r["integrity"] is None:
                    out["live"].pop(r["key"], None)
                else:
                    out["live"][r["key"]] = {"integrity": r["integrity"], "time": r["time"], "size": r["size"], "bucket": rel, "expected_bucket": bucket_rel(r["key"])}
    cdir = os.path.join(cache, "content-v2")
    for root, _dirs, files in os.walk(cdir):
        for f in sorted(files):
            p = os.path.join(root, f)
            rel = os.path.relpath(p, cache)
            parts = rel.split(os.sep)
            ok = None
            if len(parts) == 5 and parts[1] in ALGOS and os.path.isfile(p):
                with open(p, "rb") as fh:
                    ok = ALGOS[parts[1]](fh.read()).hexdigest() == parts[2] + parts[3] + parts[4]
            out["content"][rel] = ok
    return out

def append(cache, rec):
    # rec: dict with key, integrity (or None), time, size, metadata, raw_metadata
    text = json.dumps({"key": rec["key"], "integrity": rec.get("integrity"), "time": rec["time"], "size": rec["size"], "metadata": rec.get("metadata"), "raw_metadata": rec.get("raw_metadata")}, separators=(",", ":"), ensure_ascii=False)
    p = os.path.join(cache, bucket_rel(rec["key"]))
    os.makedirs(os.path.dirname(p), exist_ok=True)
    with open(p, "ab") as fh:
        fh.write(("\n" + hashlib.sha256(text.encode("utf-8")).hexdigest() + "\t" + text).encode("utf-8"))

def main():
    if len(sys.argv) >= 3 and sys.argv[1] == "dump":
        json.dump(dump(sys.argv[2]), sys.stdout, ensure_ascii=False, sort_keys=True)
    elif len(sys.argv) >= 4 and sys.argv[1] == "append":
        append(sys.argv[2], json.loads(sys.argv[3]))
    elif len(sys.argv) >= 4 and sys.argv[1] == "digest":
        with open(sys.argv[3], "rb") as fh:
            d = ALGOS[sys.argv[2]](fh.read()).digest()
        print(sys.argv[2] + "-" + base64.b64encode(d).decode())
    else:
        print(__doc__)
        sys.exit(2)

if __name__ == "__main__":
    main()
