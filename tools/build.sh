#!/bin/bash
# Builds sim and the three worker flavours against ${VERIF_REPO:-/repo} (current working tree), offline.
# Prints the worker directory on the last line. Exit 2 on any build failure (harness error, not a violation).
set -u
VERIF=$(cd "$(dirname "$0")/.." && pwd)
REPO=${VERIF_REPO:-/repo}
if [ "$REPO" = "/repo" ]; then TAG=main; else TAG=$(printf %s "$REPO" | sha1sum | cut -c1-10); fi
BUILD=$VERIF/target/w-$TAG
export CARGO_NET_OFFLINE=true
mkdir -p "$VERIF/target"
exec 9>"$VERIF/target/.build-$TAG.lock"
flock 9
fail=0
# --- sim
( cd "$VERIF/sim" && cargo build --release --offline --target-dir "$VERIF/target/sim" ) >"$VERIF/target/build-sim.log" 2>&1 || { echo "build of sim failed, see $VERIF/target/build-sim.log" >&2; tail -30 "$VERIF/target/build-sim.log" >&2; exit 2; }
# --- workers
pids=()
for fl in sync astd tokio; do
  d=$BUILD/$fl
  mkdir -p "$d"
  sed -e "s#@VERIF@#$VERIF#g" -e "s#@REPO@#$REPO#g" "$VERIF/worker/Cargo.toml.in" >"$d/Cargo.toml.new"
  if ! cmp -s "$d/Cargo.toml.new" "$d/Cargo.toml"; then mv "$d/Cargo.toml.new" "$d/Cargo.toml"; else rm "$d/Cargo.toml.new"; fi
  [ -f "$d/Cargo.lock" ] || cp "$VERIF/worker/Cargo.lock" "$d/Cargo.lock" 2>/dev/null || cp "$REPO/Cargo.lock" "$d/Cargo.lock"
  ( cd "$d" && cargo build --release --offline --features $fl --target-dir "$d/target" ) >"$d/build.log" 2>&1 &
  pids+=($!)
done
i=0
for fl in sync astd tokio; do
  if ! wait ${pids[$i]}; then echo "build of worker $fl failed, see $BUILD/$fl/build.log" >&2; grep -E '^(error|warning: unused)' -A6 "$BUILD/$fl/build.log" | head -60 >&2; fail=1; fi
  i=$((i+1))
done
[ $fail = 0 ] || exit 2
echo "$BUILD"
