#!/bin/bash
# Determinism self-test: the same seeds must give byte-identical normalised logs / traces and verdicts,
# in separate processes, with 1 lane and with 16 lanes (different worker reuse patterns), twice each.
# usage: tools/selftest_determinism.sh [runs-per-check] [checks...]
VERIF=$(cd "$(dirname "$0")/.." && pwd)
N=${1:-300}; shift
CHECKS=${@:-C01 C02 C05 C06 C08 C09 C10 C11 C12 C14 C16 C17 C18 C19 C20 C03 C04 C07 C13 C15}
WDIR=$("$VERIF/tools/build.sh" | tail -1) || exit 2
SIM=$VERIF/target/sim/release/cv-sim
tmp=$(mktemp -d /dev/shm/cv-det.XXXXXX)
bad=0
for c in $CHECKS; do
  case $c in C03|C04|C13) n=$((N/30+2));; C07|C15) n=$N;; *) n=$N;; esac
  for variant in "1 a" "16 b" "16 c" "5 d"; do
    set -- $variant
    rm -f $tmp/$c.$2.raw
    VERIF_NO_EVIDENCE=1 VERIF_REPLAY_DIR=$tmp/replays VERIF_DUMP_HASHES=$tmp/$c.$2.raw "$SIM" check $c --tier quick --workers "$WDIR" --runs $n --lanes $1 --only-seeded >/dev/null 2>&1
    sort -k2 -n $tmp/$c.$2.raw > $tmp/$c.$2
  done
  if cmp -s $tmp/$c.a $tmp/$c.b && cmp -s $tmp/$c.b $tmp/$c.c && cmp -s $tmp/$c.c $tmp/$c.d; then
    echo "$c deterministic over $(wc -l < $tmp/$c.a) runs x 4 executions (1, 16, 16, 5 lanes)"
  else
    echo "$c NONDETERMINISTIC: $(diff $tmp/$c.a $tmp/$c.b | grep -c '^<') / $(diff $tmp/$c.b $tmp/$c.c | grep -c '^<') / $(diff $tmp/$c.c $tmp/$c.d | grep -c '^<') differing runs"; diff $tmp/$c.a $tmp/$c.b | head -4; bad=1
  fi
done
rm -rf $tmp
exit $bad
