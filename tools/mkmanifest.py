#!/usr/bin/env python3
# Regenerates MANIFEST.json from the table below (kept in one place so it always validates).
import json, subprocess
props=[json.loads(l) for l in open('/verif/properties.jsonl')]
ids=[p['id'] for p in props]
fix_commits=[l.split()[0] for l in subprocess.check_output(['git','-C','/repo','log','--format=%h %s']).decode().splitlines() if ' fix:' in ' '+l]
OPS={
 "C01":("fault_enumeration","seeded storage-fault injection on content files + reference model; exhaustive bit-flip/truncation core","§3 C01"),
 "C02":("exploration","seeded operation histories against a reference model (stream-call schedules, mixed flavours); own-writes family: one async client under the system-call scheduler reads back what it has just written while its runtime's pool threads still hold parked calls","§3 C02"),
 "C05":("exploration","seeded + bounded-exhaustive operation histories against a reference model; own-writes family under the system-call scheduler; keys sharing index directories","§3 C05"),
 "C06":("fault_enumeration","storage-fault injection on index buckets (exhaustive cut/flip core) + independent decoder as oracle","§3 C06"),
 "C08":("exploration","seeded option/chunking histories against a reference model; abandon-chunk family under the system-call scheduler (a dropped write future, acknowledged-bytes oracle)","§3 C08"),
 "C09":("exploration","seeded removal histories with full audits against a reference model; own-writes family under the system-call scheduler; lazily consumed listings with a removal inside","§3 C09"),
 "C10":("exploration","seeded + bounded-exhaustive histories; listing vs model vs lookup","§3 C10"),
 "C11":("exploration","seeded metadata round trips with a simulated wall clock (symbol interposition)","§3 C11"),
 "C12":("exploration","differential simulation: one program through three flavour builds","§3 C12"),
 "C14":("exploration","seeded abandonment points (incl. poll-once-then-drop) with index/tmp snapshots; scheduler families: abandoned/cancelled async writers with their pool threads scheduled, commits failing on every call x errno, dropped write futures","§3 C14"),
 "C16":("exploration","seeded re-write histories; digests vs independent implementation; content area vs model; scheduler families: concurrent writers of identical content (serialisability oracle, two-switch enumeration), dropped write futures","§3 C16"),
 "C17":("exploration","two-party histories: library vs independent reference writer/reader of the format; own-writes family under the system-call scheduler","§3 C17"),
 "C18":("fault_enumeration","storage-fault injection x every extraction entry point x destination states","§3 C18"),
 "C19":("exploration","seeded link_to histories with target mutation and cwd changes","§3 C19"),
 "C20":("exploration","hostile programs and on-disk states under panic catcher and watchdog; dropped write futures followed by write_all / flush under the system-call scheduler (progress watchdog)","§3 C20"),
}
SYS={}
try:
    SYS=json.load(open('/verif/tools/sysim_checks.json'))
except Exception: pass
text={
 "C01":"Every checked retrieval entry point of all five API flavours is run against every single-bit flip and truncation of small content files (complete enumeration) and seeded larger damage; a wrong byte delivered with Ok is a violation. Sampling beyond the enumerated core.",
 "C02":"Thousands of seeded write/read histories (all entry points, chunkings, algorithms, sizes around the mmap threshold, hostile keys) compared with a reference model and an independent digest implementation. Evidence of absence of round-trip bugs, not proof.",
 "C05":"All histories up to length 4/5 over a small alphabet are enumerated with a full audit after each step, plus seeded long histories with mixed flavours and foreign records; lookups compared with the model.",
 "C06":"Every cut length and every single-bit flip of small buckets is enumerated, plus seeded garbage/invalid-UTF-8/long lines and duplicated fragments; all five reader flavours must return exactly what the simulator's own decoder derives from the undamaged records.",
 "C08":"Seeded commits with matching/mismatching declared size and integrity on both sides of the mmap threshold; result variant and unchanged mapping checked through all flavours.",
 "C09":"Seeded removal histories with a full audit of every key and address of the model after each step.",
 "C10":"Listing compared as a set with the model and field by field with lookup over enumerated small and seeded large histories.",
 "C11":"Every metadata field compared after round trip; default time checked against the simulated clock moved between open and commit; default size against bytes written.",
 "C12":"Same program through sync, async-std and tokio builds on fresh caches; step results and decoded final caches must agree, including on damaged caches.",
 "C14":"Writers abandoned at every kind of point (incl. background write in flight) or rejected; index snapshot and tmp/ compared.",
 "C16":"Addresses compared with independent digests; content area compared with the model after re-writes across algorithms/flavours.",
 "C17":"Raw bucket bytes compared with an independent reference encoder; reference-written records read back through the library.",
 "C18":"Every extraction entry point against pristine/damaged/missing content and several destination states; leftover unverified bytes are a violation.",
 "C19":"link_to through every entry point with relative/absolute targets, partial reads, wrong declarations and later target mutation.",
 "C20":"Every call of a hostile program (misuse of declared sizes, odd on-disk states) runs under catch_unwind and a watchdog; any panic, abort or hang is a violation.",
}
note="Trusted: kernel tmpfs POSIX semantics; the simulator's reference model and independent digest/format code (RustCrypto, xxhash-rust; cross-checked against python hashlib by tools/refimpl.py); the worker's thin JSON-to-API shim. Real: cacache in three feature builds with its real runtimes. Sampling outside the stated exhaustive cores."
checks=[]
for pid,(lvl,tech,ref) in OPS.items():
    checks.append({"property_id":pid,"quick_cmd":f"./check {pid} --tier quick","thorough_cmd":f"./check {pid} --tier thorough","evidence_file":f"/verif/evidence/{pid}.json","replay_cmd_template":f"./check {pid} --replay {{path}}","engine":"opsim" if pid!="C12" else "opsim-tri","level_claimed":{"category":lvl,"text":text[pid],"design_ref":"DESIGN.md "+ref},"level_note":note,"technique":"deterministic simulation: "+tech})
for pid,c in SYS.items():
    checks.append(c)
claimed={c["property_id"] for c in checks}
na=[{"property_id":i,"reason":"check under construction in this session (system-call level simulator, DESIGN.md §2); not yet claimed"} for i in ids if i not in claimed]
m={"version":1,
 "setup_cmd":"./tools/build.sh",
 "hooks":{"guard":"cacache_verif","enable":"no source hooks in /repo: the seams are the system-call ABI (ptrace) and symbol interposition of clock_gettime inside the worker binary; workers are built from /repo's working tree by tools/build.sh","baseline_off_cmd":"cd /repo && cargo test --workspace --no-fail-fast --offline","source_commits":[],"add_only":True},
 "engines":[{"name":"opsim","path":"/verif/sim/src/interp.rs","serves_properties":[p for p in OPS],"kind_free_text":"seeded operation histories with storage faults between steps, executed by the real library in three flavour builds, judged step by step against a reference model"},
            {"name":"sysim","path":"/verif/sim/src/sysim.rs","serves_properties":list(SYS.keys()),"kind_free_text":"ptrace-based system-call level simulator: schedules, errno/short-write injection, crash points"}],
 "checks":sorted(checks,key=lambda c:c["property_id"]),
 "notes":"./check <ID> rebuilds sim and the three workers from /repo's working tree (tools/build.sh), then runs the engine. Exit 0/1/2 = held / VIOLATION / harness error. Genuine defects found and repaired: see known_findings.json (fix commits in /repo: %s)."%", ".join(fix_commits),
 }
m["not_applicable"]=na  # (empty: every property has a schedule, a fault or a history in it and is claimed)
json.dump(m,open('/verif/MANIFEST.json','w'),indent=1)
print("checks:",len(checks),"na:",len(na))
