#!/bin/bash
./tools/trymut.sh C01A C01 C18 C12
./tools/trymut.sh C02B C02 C12 C16 C14
./tools/trymut.sh C03A C03 C08 C02 C20 C14
./tools/trymut.sh C04B C04 C13 C07 C03
./tools/trymut.sh C06A C06 C04 C12
./tools/trymut.sh C06B C06 C20 C12
./tools/trymut.sh C07A C07 C13 C16
./tools/trymut.sh C07B C07 C13 C04
./tools/trymut.sh C08A C08 C14 C09
./tools/trymut.sh C08B C08 C12
./tools/trymut.sh C09A C09
./tools/trymut.sh C09B C09 C10 C11
./tools/trymut.sh C10A C10 C11
./tools/trymut.sh C10B C10 C11
./tools/trymut.sh C13A C13 C07 C16
./tools/trymut.sh C13B C13 C04
