#!/bin/bash
./tools/trymut.sh C11A C11 C05 C17
./tools/trymut.sh C11B C11 C08 C12
./tools/trymut.sh C12A C12 C08
./tools/trymut.sh C12B C12 C09
./tools/trymut.sh C14A C14 C08
./tools/trymut.sh C14B C14 C13
./tools/trymut.sh C15A C15 C01
./tools/trymut.sh C15B C15 C19 C09
./tools/trymut.sh C16A C16 C02 C12
./tools/trymut.sh C16B C16 C02
./tools/trymut.sh C17A C17 C05 C06
./tools/trymut.sh C17B C17 C15
./tools/trymut.sh C18A C18 C12
./tools/trymut.sh C18B C18 C01
./tools/trymut.sh C19A C19
./tools/trymut.sh C19B C19
./tools/trymut.sh C20A C20 C08 C03
./tools/trymut.sh C20B C20 C13
