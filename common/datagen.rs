// Shared by worker and sim (included with #[path]): deterministic test data.
// The first 8 bytes are the seed itself, so every value is attributable to one write.
pub fn gen(seed: u64, len: usize) -> Vec<u8> {
    let mut v = Vec::with_capacity(len + 8);
    let mut s = seed ^ 0x9E37_79B9_7F4A_7C15;
    if s == 0 {
        s = 1;
    }
    v.extend_from_slice(&seed.to_le_bytes());
    while v.len() < len {
        s ^= s << 13;
        s ^= s >> 7;
        s ^= s << 17;
        v.extend_from_slice(&s.wrapping_mul(0x2545_F491_4F6C_DD1D).to_le_bytes());
    }
    v.truncate(len);
    v
}
