// cv-worker: a dumb executor of cacache API calls, driven by JSON lines.
//
//   cv-worker --serve                       one op per stdin line, one result per stdout line
//   cv-worker --program P --out O           run all ops of P (JSON lines), append results to O;
//                                           every op is bracketed by marker writes on the O fd
//
// Built in three flavours (cargo features): sync (cacache --no-default-features), astd, tokio.
// The worker never decides anything: keys, data, chunking, options, fault steps all come from sim.
#![allow(clippy::all)]
#![allow(dead_code)]

use std::io::{BufRead, Read, Write};
use std::path::{Path, PathBuf};
use std::sync::atomic::{AtomicI64, Ordering};
use std::sync::Mutex;

use cacache::{Algorithm, Error, Integrity, WriteOpts};
use serde_json::{json, Value};
use sha2::Digest;

#[path = "../../common/datagen.rs"]
mod datagen;

#[cfg(any(feature = "astd", feature = "tokio"))]
mod aops;

// ---------------------------------------------------------------- clock seam
static CLOCK_SEC: AtomicI64 = AtomicI64::new(i64::MIN);
static CLOCK_NSEC: AtomicI64 = AtomicI64::new(0);

/// Symbol interposition: Rust's std is linked statically into this executable, so
/// `SystemTime::now()` binds to this definition instead of glibc's.
#[no_mangle]
pub unsafe extern "C" fn clock_gettime(clk: libc::clockid_t, ts: *mut libc::timespec) -> libc::c_int {
    if clk == libc::CLOCK_REALTIME {
        let s = CLOCK_SEC.load(Ordering::SeqCst);
        if s != i64::MIN {
            (*ts).tv_sec = s;
            (*ts).tv_nsec = CLOCK_NSEC.load(Ordering::SeqCst);
            return 0;
        }
    }
    libc::syscall(libc::SYS_clock_gettime, clk, ts) as libc::c_int
}

pub fn set_clock_ms(ms: Option<u128>) {
    match ms {
        None => CLOCK_SEC.store(i64::MIN, Ordering::SeqCst),
        Some(ms) => {
            CLOCK_NSEC.store(((ms % 1000) * 1_000_000) as i64, Ordering::SeqCst);
            CLOCK_SEC.store((ms / 1000) as i64, Ordering::SeqCst);
        }
    }
}

fn clock_selftest() -> bool {
    set_clock_ms(Some(1_234_567_890_123));
    let now = std::time::SystemTime::now()
        .duration_since(std::time::UNIX_EPOCH)
        .map(|d| d.as_millis())
        .unwrap_or(0);
    set_clock_ms(None);
    now == 1_234_567_890_123
}

// ---------------------------------------------------------------- panic capture
pub static LAST_PANIC: Mutex<Option<String>> = Mutex::new(None);

fn install_panic_hook() {
    std::panic::set_hook(Box::new(|info| {
        let loc = info
            .location()
            .map(|l| format!("{}:{}", l.file(), l.line()))
            .unwrap_or_default();
        let msg = if let Some(s) = info.payload().downcast_ref::<&str>() {
            s.to_string()
        } else if let Some(s) = info.payload().downcast_ref::<String>() {
            s.clone()
        } else {
            "<non-string panic>".to_string()
        };
        let th = std::thread::current().name().unwrap_or("?").to_string();
        if let Ok(mut g) = LAST_PANIC.lock() {
            // keep the first panic of an op: later ones are usually consequences
            if g.is_none() {
                *g = Some(format!("{msg} @ {loc} [thread {th}]"));
            }
        }
    }));
}

pub fn take_panic() -> Option<String> {
    LAST_PANIC.lock().ok().and_then(|mut g| g.take())
}

// ---------------------------------------------------------------- helpers
pub fn sha256_hex(b: &[u8]) -> String {
    hex::encode(sha2::Sha256::digest(b))
}

pub fn bytes_json(b: &[u8]) -> Value {
    let head = &b[..b.len().min(16)];
    json!({"len": b.len(), "sha": sha256_hex(b), "head": hex::encode(head)})
}

pub fn file_json(p: &Path) -> Value {
    match std::fs::symlink_metadata(p) {
        Err(_) => json!({"exists": false}),
        Ok(md) => {
            if md.file_type().is_symlink() {
                return json!({"exists": true, "kind": "symlink"});
            }
            if md.is_dir() {
                return json!({"exists": true, "kind": "dir"});
            }
            match std::fs::read(p) {
                Ok(b) => {
                    let mut v = bytes_json(&b);
                    v["exists"] = json!(true);
                    v["kind"] = json!("file");
                    v
                }
                Err(e) => json!({"exists": true, "kind": "file", "unreadable": format!("{:?}", e.kind())}),
            }
        }
    }
}

pub fn get_data(op: &Value) -> Vec<u8> {
    let d = &op["data"];
    if let Some(g) = d.get("g") {
        datagen::gen(g[0].as_u64().unwrap(), g[1].as_u64().unwrap() as usize)
    } else if let Some(h) = d.get("h") {
        hex::decode(h.as_str().unwrap()).unwrap()
    } else {
        Vec::new()
    }
}

pub fn s<'a>(op: &'a Value, k: &str) -> &'a str {
    op[k].as_str().unwrap_or("")
}

pub fn opt_s<'a>(op: &'a Value, k: &str) -> Option<&'a str> {
    op.get(k).and_then(|v| v.as_str())
}

pub fn parse_algo(a: &str) -> Algorithm {
    match a {
        "sha1" => Algorithm::Sha1,
        "sha256" => Algorithm::Sha256,
        "sha384" => Algorithm::Sha384,
        "sha512" => Algorithm::Sha512,
        "xxh3" => Algorithm::Xxh3,
        _ => Algorithm::Sha256,
    }
}

pub fn parse_sri(op: &Value, k: &str) -> Integrity {
    op[k].as_str().unwrap().parse::<Integrity>().unwrap()
}

pub fn build_opts(o: &Value) -> WriteOpts {
    let mut w = WriteOpts::new();
    // a caller that configures an option and later changes its mind: every option of "first" is set, then the real ones
    if let Some(f) = o.get("first") {
        if let Some(a) = opt_s(f, "algo") {
            w = w.algorithm(parse_algo(a));
        }
        if let Some(n) = f.get("size").and_then(|v| v.as_u64()) {
            w = w.size(n as usize);
        }
        if let Some(i) = opt_s(f, "sri") {
            w = w.integrity(i.parse::<Integrity>().unwrap());
        }
        if let Some(t) = opt_s(f, "time") {
            w = w.time(t.parse::<u128>().unwrap());
        }
        if let Some(m) = f.get("meta") {
            w = w.metadata(m.clone());
        }
        if let Some(r) = opt_s(f, "raw") {
            w = w.raw_metadata(hex::decode(r).unwrap());
        }
    }
    if let Some(a) = opt_s(o, "algo") {
        w = w.algorithm(parse_algo(a));
    }
    if let Some(n) = o.get("size").and_then(|v| v.as_u64()) {
        w = w.size(n as usize);
    }
    if let Some(i) = opt_s(o, "sri") {
        w = w.integrity(i.parse::<Integrity>().unwrap());
    }
    if let Some(t) = opt_s(o, "time") {
        w = w.time(t.parse::<u128>().unwrap());
    }
    if let Some(m) = o.get("meta") {
        w = w.metadata(m.clone());
    }
    if let Some(r) = opt_s(o, "raw") {
        w = w.raw_metadata(hex::decode(r).unwrap());
    }
    w
}

pub fn io_err_json(e: &std::io::Error, phase: &str) -> Value {
    json!({"r":"err","v":"IoError","kind":format!("{:?}", e.kind()),"os":e.raw_os_error(),"phase":phase,"msg":e.to_string()})
}

pub fn err_json(e: &Error) -> Value {
    match e {
        Error::EntryNotFound(_, k) => json!({"r":"err","v":"EntryNotFound","key":k}),
        Error::SizeMismatch(a, b) => json!({"r":"err","v":"SizeMismatch","a":a,"b":b}),
        Error::IoError(e, ctx) => {
            json!({"r":"err","v":"IoError","kind":format!("{:?}", e.kind()),"os":e.raw_os_error(),"ctx":ctx,"msg":e.to_string()})
        }
        Error::SerdeError(e, ctx) => json!({"r":"err","v":"SerdeError","ctx":ctx,"msg":e.to_string()}),
        Error::IntegrityError(e) => json!({"r":"err","v":"IntegrityError","msg":e.to_string()}),
    }
}

/// path strings of the protocol: bytes that are not valid UTF-8 travel as the private-use characters U+F780..U+F7FF
pub fn pdec(s: &str) -> PathBuf {
    use std::os::unix::ffi::OsStringExt;
    let mut b = Vec::with_capacity(s.len());
    for c in s.chars() {
        let u = c as u32;
        if (0xF780..=0xF7FF).contains(&u) {
            b.push((u - 0xF700) as u8);
        } else {
            let mut buf = [0u8; 4];
            b.extend_from_slice(c.encode_utf8(&mut buf).as_bytes());
        }
    }
    PathBuf::from(std::ffi::OsString::from_vec(b))
}
pub fn pth(op: &Value, k: &str) -> PathBuf {
    pdec(s(op, k))
}

pub fn meta_json(m: &cacache::Metadata) -> Value {
    json!({
        "key": m.key,
        "sri": m.integrity.to_string(),
        "time": m.time.to_string(),
        "size": m.size,
        "metadata": m.metadata,
        "raw": m.raw_metadata.as_ref().map(hex::encode),
    })
}

pub fn ok(v: Value) -> Value {
    let mut v = v;
    v["r"] = json!("ok");
    v
}

pub fn res_sri(r: cacache::Result<Integrity>) -> Value {
    match r {
        Ok(s) => ok(json!({"sri": s.to_string()})),
        Err(e) => err_json(&e),
    }
}
pub fn res_unit(r: cacache::Result<()>) -> Value {
    match r {
        Ok(()) => ok(json!({})),
        Err(e) => err_json(&e),
    }
}
pub fn res_bytes(r: cacache::Result<Vec<u8>>) -> Value {
    match r {
        Ok(b) => ok(bytes_json(&b)),
        Err(e) => err_json(&e),
    }
}
pub fn res_n(r: cacache::Result<u64>, to: &Path) -> Value {
    match r {
        Ok(n) => ok(json!({"n": n, "dest": file_json(to)})),
        Err(e) => {
            let mut v = err_json(&e);
            v["dest"] = file_json(to);
            v
        }
    }
}
pub fn res_unit_dest(r: cacache::Result<()>, to: &Path) -> Value {
    match r {
        Ok(()) => ok(json!({"dest": file_json(to)})),
        Err(e) => {
            let mut v = err_json(&e);
            v["dest"] = file_json(to);
            v
        }
    }
}
pub fn res_meta(r: cacache::Result<Option<cacache::Metadata>>) -> Value {
    match r {
        Ok(Some(m)) => ok(json!({"meta": meta_json(&m)})),
        Ok(None) => ok(json!({"meta": null})),
        Err(e) => err_json(&e),
    }
}

/// chunk lengths: explicit list, or one chunk with everything.
pub fn chunk_plan(op: &Value, total: usize) -> Vec<usize> {
    match op.get("chunks").and_then(|c| c.as_array()) {
        Some(a) => a.iter().map(|x| x.as_u64().unwrap() as usize).collect(),
        None => vec![total],
    }
}

pub fn usize_list(op: &Value, k: &str) -> Vec<usize> {
    op.get(k)
        .and_then(|c| c.as_array())
        .map(|a| a.iter().map(|x| x.as_u64().unwrap() as usize).collect())
        .unwrap_or_default()
}

// ---------------------------------------------------------------- environment actions (plain std::fs, outside the API)
pub fn env_act(a: &Value) -> Value {
    let act = s(a, "act");
    let p = pth(a, "path");
    let r: std::io::Result<Value> = (|| {
        match act {
            "flip" => {
                let mut b = std::fs::read(&p)?;
                let i = a["byte"].as_u64().unwrap() as usize;
                let bit = a["bit"].as_u64().unwrap_or(0) as u8;
                if i < b.len() {
                    b[i] ^= 1 << bit;
                }
                // write in place (keeps inode: hard links and open fds see it)
                let mut f = std::fs::OpenOptions::new().write(true).open(&p)?;
                f.write_all(&b)?;
                Ok(json!({}))
            }
            "truncate" => {
                let f = std::fs::OpenOptions::new().write(true).open(&p)?;
                f.set_len(a["len"].as_u64().unwrap())?;
                Ok(json!({}))
            }
            "append" => {
                let mut f = std::fs::OpenOptions::new().append(true).create(true).open(&p)?;
                f.write_all(&get_data(a))?;
                Ok(json!({}))
            }
            "write_file" => {
                if let Some(d) = p.parent() {
                    std::fs::create_dir_all(d)?;
                }
                std::fs::write(&p, get_data(a))?;
                Ok(json!({}))
            }
            "overwrite_inplace" => {
                let mut f = std::fs::OpenOptions::new().write(true).truncate(true).open(&p)?;
                f.write_all(&get_data(a))?;
                Ok(json!({}))
            }
            "remove" => {
                std::fs::remove_file(&p)?;
                Ok(json!({}))
            }
            "rmdir_all" => {
                std::fs::remove_dir_all(&p)?;
                Ok(json!({}))
            }
            "mkdir" => {
                std::fs::create_dir_all(&p)?;
                Ok(json!({}))
            }
            "symlink" => {
                let _ = std::fs::remove_file(&p);
                std::os::unix::fs::symlink(pth(a, "target"), &p)?;
                Ok(json!({}))
            }
            "rename" => {
                std::fs::rename(&p, pth(a, "to"))?;
                Ok(json!({}))
            }
            "chdir" => {
                std::env::set_current_dir(&p)?;
                Ok(json!({}))
            }
            "stat" => Ok(json!({"file": file_json(&p)})),
            _ => Ok(json!({"unknown_env": act})),
        }
    })();
    match r {
        Ok(v) => ok(v),
        Err(e) => io_err_json(&e, "env"),
    }
}

// ---------------------------------------------------------------- synchronous API ops
fn sync_write(op: &Value) -> Value {
    let cache_pb = pth(op, "cache");
    let cache: &Path = &cache_pb;
    let key = opt_s(op, "key");
    let data = get_data(op);
    let entry = s(op, "entry");
    let algo = parse_algo(opt_s(op, "algo").unwrap_or("sha256"));
    match entry {
        "write" => {
            return res_sri(match key {
                Some(k) => cacache::write_sync(cache, k, &data),
                None => cacache::write_hash_sync(cache, &data),
            })
        }
        "write_algo" => {
            return res_sri(match key {
                Some(k) => cacache::write_sync_with_algo(algo, cache, k, &data),
                None => cacache::write_hash_sync_with_algo(algo, cache, &data),
            })
        }
        _ => {}
    }
    let w = match entry {
        "create" => cacache::SyncWriter::create(cache, key.unwrap()),
        "create_algo" => cacache::SyncWriter::create_with_algo(algo, cache, key.unwrap()),
        _ => {
            let o = build_opts(&op["opts"]);
            match key {
                Some(k) => o.open_sync(cache, k),
                None => o.open_hash_sync(cache),
            }
        }
    };
    let mut w = match w {
        Ok(w) => w,
        Err(e) => {
            let mut v = err_json(&e);
            v["phase"] = json!("open");
            return v;
        }
    };
    let chunks = chunk_plan(op, data.len());
    let flush_after = usize_list(op, "flush_after");
    let stop_after = op.get("stop_after").and_then(|v| v.as_u64()).map(|x| x as usize);
    let mut off = 0usize;
    for (i, n) in chunks.iter().enumerate() {
        if let Some(sa) = stop_after {
            if i >= sa {
                break;
            }
        }
        let end = (off + n).min(data.len());
        let chunk = &data[off.min(data.len())..end];
        off = end;
        // like write_all, but an empty chunk still results in one write() call
        let mut rest = chunk;
        loop {
            let vectored = op.get("vectored").and_then(|v| v.as_bool()) == Some(true);
            let res = if vectored {
                // scatter/gather entry point: the same bytes handed over as two slices
                let mid = rest.len() / 2;
                w.write_vectored(&[std::io::IoSlice::new(&rest[..mid]), std::io::IoSlice::new(&rest[mid..])])
            } else {
                w.write(rest)
            };
            match res {
                Ok(k) => {
                    if k > rest.len() {
                        return json!({"r":"err","v":"Bogus","msg":"write returned more than given"});
                    }
                    rest = &rest[k..];
                    if rest.is_empty() {
                        break;
                    }
                    if k == 0 {
                        return json!({"r":"err","v":"IoError","kind":"WriteZero","phase":"write","chunk":i});
                    }
                }
                Err(e) if e.kind() == std::io::ErrorKind::Interrupted => {}
                Err(e) => {
                    let mut v = io_err_json(&e, "write");
                    v["chunk"] = json!(i);
                    return v;
                }
            }
        }
        if flush_after.contains(&i) {
            if let Err(e) = w.flush() {
                return io_err_json(&e, "flush");
            }
        }
        if op.get("mid_after").and_then(|v| v.as_u64()) == Some(i as u64) {
            // something else happens to the cache directory while this writer is open
            env_act(&op["mid"]);
        }
    }
    match s(op, "end") {
        "drop" => {
            drop(w);
            ok(json!({"dropped": true}))
        }
        _ => {
            if let Some(c) = opt_s(op, "clock_at_commit") {
                set_clock_ms(c.parse::<u128>().ok());
            }
            let mut v = res_sri(w.commit());
            if v["r"] == "err" {
                v["phase"] = json!("commit");
            }
            v
        }
    }
}

fn sync_reader(op: &Value) -> Value {
    let cache_pb = pth(op, "cache");
    let cache: &Path = &cache_pb;
    let r = match opt_s(op, "key") {
        Some(k) => cacache::SyncReader::open(cache, k),
        None => cacache::SyncReader::open_hash(cache, parse_sri(op, "sri")),
    };
    let mut r = match r {
        Ok(r) => r,
        Err(e) => {
            let mut v = err_json(&e);
            v["phase"] = json!("open");
            return v;
        }
    };
    let bufs = {
        let b = usize_list(op, "bufs");
        if b.is_empty() {
            vec![8192]
        } else {
            b
        }
    };
    let mid_after = op.get("mid_after").and_then(|v| v.as_u64());
    let mut got = Vec::new();
    let mut i = 0usize;
    if let Some(first) = op.get("exact_first").and_then(|v| v.as_u64()) {
        // read_exact of a leading part (fails with UnexpectedEof when the stream is shorter; then nothing is taken)
        let mut b = vec![0u8; first as usize];
        match r.read_exact(&mut b) {
            Ok(_) => got.extend_from_slice(&b),
            Err(e) if e.kind() == std::io::ErrorKind::UnexpectedEof => return ok(json!({"got": bytes_json(&got), "checked": false, "short": true})),
            Err(e) => {
                let mut v = io_err_json(&e, "read_exact");
                v["got"] = bytes_json(&got);
                return v;
            }
        }
    }
    if let Some(pre) = op.get("to_end").and_then(|v| v.as_u64()) {
        // the convenience most callers use, into a vector that already holds `pre` bytes
        let mut v = vec![0xa5u8; pre as usize];
        match r.read_to_end(&mut v) {
            Ok(_) => got.extend_from_slice(&v[(pre as usize).min(v.len())..]),
            Err(e) => {
                let mut ev = io_err_json(&e, "read_to_end");
                ev["got"] = bytes_json(&v[(pre as usize).min(v.len())..]);
                return ev;
            }
        }
    }
    loop {
        if Some(i as u64) == mid_after {
            env_act(&op["mid"]);
        }
        let n = bufs[i % bufs.len()];
        let mut buf = vec![0u8; n];
        i += 1;
        match r.read(&mut buf) {
            Ok(k) => {
                if k > n {
                    return json!({"r":"err","v":"Bogus","msg":"read returned more than buffer"});
                }
                got.extend_from_slice(&buf[..k]);
                if k == 0 && n > 0 {
                    break;
                }
            }
            Err(e) if e.kind() == std::io::ErrorKind::Interrupted => {}
            Err(e) => {
                let mut v = io_err_json(&e, "read");
                v["got"] = bytes_json(&got);
                return v;
            }
        }
        if bufs.iter().all(|b| *b == 0) && i >= 4 {
            // only zero-length buffers were offered: EOF cannot be observed, stop without the final check
            return ok(json!({"got": bytes_json(&got), "checked": false}));
        }
        if i > 10_000_000 {
            return json!({"r":"hang","msg":"reader never reached EOF"});
        }
    }
    // a caller that keeps reading after the end of the stream (a retry loop, a wrapper that polls once more): the
    // reader must go on reporting end of file, and whatever it does hand out counts as delivered bytes
    for _ in 0..op.get("eof_reads").and_then(|v| v.as_u64()).unwrap_or(0) {
        let mut buf = vec![0u8; 64];
        match r.read(&mut buf) {
            Ok(k) => got.extend_from_slice(&buf[..k.min(64)]),
            Err(e) => {
                let mut v = io_err_json(&e, "read-after-eof");
                v["got"] = bytes_json(&got);
                return v;
            }
        }
    }
    if op.get("check").and_then(|v| v.as_bool()) == Some(false) {
        return ok(json!({"got": bytes_json(&got), "checked": false}));
    }
    match r.check() {
        Ok(_) => ok(json!({"got": bytes_json(&got), "checked": true})),
        Err(e) => {
            let mut v = err_json(&e);
            v["phase"] = json!("check");
            v["got"] = bytes_json(&got);
            v
        }
    }
}

fn sync_extract(op: &Value, name: &str) -> Value {
    let cache_pb = pth(op, "cache");
    let cache: &Path = &cache_pb;
    let to = pth(op, "to");
    let key = opt_s(op, "key");
    let sri = || parse_sri(op, "sri");
    match name {
        "copy" => match key {
            Some(k) => res_n(cacache::copy_sync(cache, k, &to), &to),
            None => res_n(cacache::copy_hash_sync(cache, &sri(), &to), &to),
        },
        "copy_unchecked" => match key {
            Some(k) => res_n(cacache::copy_unchecked_sync(cache, k, &to), &to),
            None => res_n(cacache::copy_hash_unchecked_sync(cache, &sri(), &to), &to),
        },
        "hard_link" => match key {
            Some(k) => res_unit_dest(cacache::hard_link_sync(cache, k, &to), &to),
            None => res_unit_dest(cacache::hard_link_hash_sync(cache, &sri(), &to), &to),
        },
        "hard_link_unchecked" => match key {
            Some(k) => res_unit_dest(cacache::hard_link_unchecked_sync(cache, k, &to), &to),
            None => res_unit_dest(cacache::hard_link_hash_unchecked_sync(cache, &sri(), &to), &to),
        },
        "reflink" => match key {
            Some(k) => res_unit_dest(cacache::reflink_sync(cache, k, &to), &to),
            None => res_unit_dest(cacache::reflink_hash_sync(cache, &sri(), &to), &to),
        },
        "reflink_unchecked" => match key {
            Some(k) => res_unit_dest(cacache::reflink_unchecked_sync(cache, k, &to), &to),
            None => res_unit_dest(cacache::reflink_hash_unchecked_sync(cache, &sri(), &to), &to),
        },
        _ => json!({"r":"unsupported"}),
    }
}

fn list_json(cache: &Path, raw_index: bool, op: &Value) -> Value {
    let mut entries = Vec::new();
    let mut errs = Vec::new();
    let mut n = 0u64;
    let mut it: Box<dyn Iterator<Item = cacache::Result<cacache::Metadata>>> = if raw_index {
        Box::new(cacache::index::ls(Path::new(cache)))
    } else {
        Box::new(cacache::list_sync(cache))
    };
    // the listing is consumed lazily; between two items the same caller removes a key for good
    let rm_key = opt_s(op, "rm_key");
    let rm_at = op.get("rm_at").and_then(|v| v.as_u64()).unwrap_or(0);
    let mut rm: Option<Value> = None;
    loop {
        if let Some(k) = rm_key {
            if rm.is_none() && n == rm_at {
                rm = Some(res_unit(cacache::RemoveOpts::new().remove_fully(true).remove_sync(cache, k)));
            }
        }
        let item = match it.next() {
            Some(i) => i,
            None => break,
        };
        n += 1;
        match item {
            Ok(m) => entries.push(meta_json(&m)),
            Err(e) => errs.push(err_json(&e)),
        }
        if n > 5_000_000 {
            return json!({"r":"hang","msg":"listing does not end"});
        }
    }
    if let Some(k) = rm_key {
        if rm.is_none() {
            rm = Some(res_unit(cacache::RemoveOpts::new().remove_fully(true).remove_sync(cache, k)));
        }
    }
    let mut v = ok(json!({"entries": entries, "errs": errs}));
    if let Some(r) = rm {
        v["rm"] = r;
    }
    v
}

fn sync_link_to(op: &Value) -> Value {
    let cache_pb = pth(op, "cache");
    let cache: &Path = &cache_pb;
    let key = opt_s(op, "key");
    let target_pb = pth(op, "target");
    let target: &Path = &target_pb;
    match s(op, "entry") {
        "fn" => {
            return res_sri(match key {
                Some(k) => cacache::link_to_sync(cache, k, target),
                None => cacache::link_to_hash_sync(cache, target),
            })
        }
        _ => {}
    }
    let l = match s(op, "entry") {
        "open" => match key {
            Some(k) => cacache::SyncToLinker::open(cache, k, target),
            None => cacache::SyncToLinker::open_hash(cache, target),
        },
        _ => {
            let o = build_opts(&op["opts"]);
            match key {
                Some(k) => o.link_to_sync(cache, k, target),
                None => o.link_to_hash_sync(cache, target),
            }
        }
    };
    let mut l = match l {
        Ok(l) => l,
        Err(e) => {
            let mut v = err_json(&e);
            v["phase"] = json!("open");
            return v;
        }
    };
    let mut got = Vec::new();
    for n in usize_list(op, "reads") {
        let mut buf = vec![0u8; n];
        match l.read(&mut buf) {
            Ok(k) => got.extend_from_slice(&buf[..k.min(n)]),
            Err(e) => return io_err_json(&e, "read"),
        }
    }
    if let Some(pre) = op.get("to_end").and_then(|v| v.as_u64()) {
        // the rest through read_to_end into a vector that already holds `pre` bytes
        let mut v = vec![0xa5u8; pre as usize];
        match l.read_to_end(&mut v) {
            Ok(_) => got.extend_from_slice(&v[(pre as usize).min(v.len())..]),
            Err(e) => return io_err_json(&e, "read_to_end"),
        }
    }
    if s(op, "end") == "drop" {
        drop(l);
        return ok(json!({"dropped": true, "got": bytes_json(&got)}));
    }
    if let Some(d) = opt_s(op, "chdir_before_commit") {
        // the working directory changes between opening the linker and committing it
        let _ = std::env::set_current_dir(pdec(d));
    }
    let mut v = res_sri(l.commit());
    v["got"] = bytes_json(&got);
    v
}

fn exec_sync(op: &Value) -> Value {
    let cache_pb = pth(op, "cache");
    let cache: &Path = &cache_pb;
    match s(op, "op") {
        "write" => sync_write(op),
        "read" => res_bytes(match opt_s(op, "key") {
            Some(k) => cacache::read_sync(cache, k),
            None => cacache::read_hash_sync(cache, &parse_sri(op, "sri")),
        }),
        "reader" => sync_reader(op),
        n @ ("copy" | "copy_unchecked" | "hard_link" | "hard_link_unchecked" | "reflink" | "reflink_unchecked") => {
            sync_extract(op, n)
        }
        "metadata" => res_meta(cacache::metadata_sync(cache, s(op, "key"))),
        "find" => res_meta(cacache::index::find(Path::new(cache), s(op, "key"))),
        "exists" => ok(json!({"b": cacache::exists_sync(cache, &parse_sri(op, "sri"))})),
        "list" => list_json(cache, false, op),
        "ls" => list_json(cache, true, op),
        "remove" => res_unit(cacache::remove_sync(cache, s(op, "key"))),
        "remove_hash" => res_unit(cacache::remove_hash_sync(cache, &parse_sri(op, "sri"))),
        "remove_opts" => res_unit(
            cacache::RemoveOpts::new()
                .remove_fully(op["fully"].as_bool().unwrap_or(false))
                .remove_sync(cache, s(op, "key")),
        ),
        "clear" => res_unit(cacache::clear_sync(cache)),
        "index_insert" => res_sri(cacache::index::insert(Path::new(cache), s(op, "key"), build_opts(&op["opts"]))),
        "index_delete" => res_unit(cacache::index::delete(Path::new(cache), s(op, "key"))),
        "link_to" => sync_link_to(op),
        _ => json!({"r":"unsupported"}),
    }
}

// ---------------------------------------------------------------- dispatch
fn exec(op: &Value) -> Value {
    match s(op, "op") {
        "ping" => return ok(json!({"flavour": flavour()})),
        "env" => return env_act(op),
        "set_clock" => {
            set_clock_ms(opt_s(op, "ms").map(|m| m.parse::<u128>().unwrap()));
            return ok(json!({}));
        }
        "exit" => std::process::exit(0),
        _ => {}
    }
    let _ = take_panic();
    let is_async = s(op, "fl") == "async";
    let r = std::panic::catch_unwind(std::panic::AssertUnwindSafe(|| {
        if is_async {
            #[cfg(any(feature = "astd", feature = "tokio"))]
            {
                return aops::exec_async(op);
            }
            #[cfg(not(any(feature = "astd", feature = "tokio")))]
            {
                return json!({"r":"unsupported"});
            }
        }
        exec_sync(op)
    }));
    match r {
        Ok(mut v) => {
            if let Some(p) = take_panic() {
                // a panic on another thread (e.g. a runtime's blocking pool) during this op
                v["bg_panic"] = json!(p);
            }
            v
        }
        Err(_) => json!({"r":"panic","msg": take_panic().unwrap_or_default()}),
    }
}

fn flavour() -> &'static str {
    if cfg!(feature = "astd") {
        "astd"
    } else if cfg!(feature = "tokio") {
        "tokio"
    } else {
        "sync"
    }
}

fn main() {
    install_panic_hook();
    let args: Vec<String> = std::env::args().collect();
    if !clock_selftest() {
        eprintln!("cv-worker: clock seam self-test failed");
        std::process::exit(2);
    }
    if args.len() >= 2 && args[1] == "--serve" {
        let stdin = std::io::stdin();
        let stdout = std::io::stdout();
        let mut out = stdout.lock();
        for line in stdin.lock().lines() {
            let line = match line {
                Ok(l) => l,
                Err(_) => break,
            };
            if line.trim().is_empty() {
                continue;
            }
            let op: Value = match serde_json::from_str(&line) {
                Ok(v) => v,
                Err(e) => {
                    let _ = writeln!(out, "{}", json!({"r":"badjson","msg":e.to_string()}));
                    let _ = out.flush();
                    continue;
                }
            };
            let res = exec(&op);
            let _ = writeln!(out, "{}", res);
            let _ = out.flush();
        }
        return;
    }
    if args.len() >= 5 && args[1] == "--program" && args[3] == "--out" {
        let prog = std::fs::read_to_string(&args[2]).expect("program file");
        let mut out = std::fs::OpenOptions::new()
            .create(true)
            .append(true)
            .open(&args[4])
            .expect("out file");
        for (i, line) in prog.lines().enumerate() {
            if line.trim().is_empty() {
                continue;
            }
            let op: Value = serde_json::from_str(line).expect("program json");
            // marker: begin of op i (one write(2) on the out fd, seen by the simulator)
            let _ = out.write_all(format!("B {}\n", i).as_bytes());
            let res = exec(&op);
            let _ = out.write_all(format!("E {} {}\n", i, res).as_bytes());
        }
        let _ = out.write_all(b"Q\n");
        return;
    }
    eprintln!("usage: cv-worker --serve | --program P --out O");
    std::process::exit(2);
}
