// Async API ops, compiled for the astd and tokio flavours.
#[allow(unused_imports)]
use std::path::{Path, PathBuf};
use std::time::Duration;

use serde_json::{json, Value};

use crate::*;

#[cfg(feature = "astd")]
use futures::io::{AsyncReadExt, AsyncWriteExt};
#[cfg(feature = "tokio")]
use tokio::io::{AsyncReadExt, AsyncWriteExt};

fn op_timeout() -> Duration {
    // under the system-call simulator a call can be parked by the scheduler for as long as the simulator likes:
    // its own watchdog (no tracer-visible progress) is the hang detector there
    Duration::from_secs(std::env::var("CV_OP_TIMEOUT_S").ok().and_then(|s| s.parse().ok()).unwrap_or(30))
}

#[cfg(feature = "tokio")]
fn rt() -> &'static tokio::runtime::Runtime {
    use std::sync::OnceLock;
    static RT: OnceLock<tokio::runtime::Runtime> = OnceLock::new();
    RT.get_or_init(|| {
        tokio::runtime::Builder::new_multi_thread()
            .worker_threads(2)
            .max_blocking_threads(4)
            .enable_all()
            .build()
            .unwrap()
    })
}

#[cfg(feature = "astd")]
fn run<F: std::future::Future<Output = Value>>(f: F) -> Value {
    async_std::task::block_on(async {
        match async_std::future::timeout(op_timeout(), f).await {
            Ok(v) => v,
            Err(_) => json!({"r":"hang","msg":"async op did not finish within the watchdog"}),
        }
    })
}

#[cfg(feature = "tokio")]
fn run<F: std::future::Future<Output = Value>>(f: F) -> Value {
    rt().block_on(async {
        match tokio::time::timeout(op_timeout(), f).await {
            Ok(v) => v,
            Err(_) => json!({"r":"hang","msg":"async op did not finish within the watchdog"}),
        }
    })
}

#[cfg(feature = "astd")]
async fn close_writer(w: &mut cacache::Writer) -> std::io::Result<()> {
    w.close().await
}
#[cfg(feature = "tokio")]
async fn close_writer(w: &mut cacache::Writer) -> std::io::Result<()> {
    w.shutdown().await
}

async fn a_write(op: &Value) -> Value {
    let cache_pb = pth(op, "cache");
    let cache: &Path = &cache_pb;
    let key = opt_s(op, "key");
    let data = get_data(op);
    let entry = s(op, "entry");
    let algo = parse_algo(opt_s(op, "algo").unwrap_or("sha256"));
    match entry {
        "write" => {
            return res_sri(match key {
                Some(k) => cacache::write(cache, k, &data).await,
                None => cacache::write_hash(cache, &data).await,
            })
        }
        "write_algo" => {
            return res_sri(match key {
                Some(k) => cacache::write_with_algo(algo, cache, k, &data).await,
                None => cacache::write_hash_with_algo(algo, cache, &data).await,
            })
        }
        _ => {}
    }
    let w = match entry {
        "create" => cacache::Writer::create(cache, key.unwrap()).await,
        "create_algo" => cacache::Writer::create_with_algo(algo, cache, key.unwrap()).await,
        _ => {
            let o = build_opts(&op["opts"]);
            match key {
                Some(k) => o.open(cache, k).await,
                None => o.open_hash(cache).await,
            }
        }
    };
    let mut w = match w {
        Ok(w) => w,
        Err(e) => {
            let mut v = err_json(&e);
            v["phase"] = json!("open");
            return v;
        }
    };
    let chunks = chunk_plan(op, data.len());
    let flush_after = usize_list(op, "flush_after");
    let repoll = usize_list(op, "repoll"); // chunk indices whose write future is polled once, dropped, re-created
    let stop_after = op.get("stop_after").and_then(|v| v.as_u64()).map(|x| x as usize);
    let end = s(op, "end");
    let mut off = 0usize;
    let mut acked: u64 = 0; // bytes the writer acknowledged (sum of the counts it returned)
    let nchunks = chunks.len();
    for (i, n) in chunks.iter().enumerate() {
        if let Some(sa) = stop_after {
            if i >= sa {
                break;
            }
        }
        let e = (off + n).min(data.len());
        let chunk = &data[off.min(data.len())..e];
        off = e;
        if end == "pending_drop" && i + 1 == nchunks.min(stop_after.unwrap_or(nchunks)) {
            // poll the write once; if the background write is still in flight, abandon the writer now
            let p = {
                let fut = w.write(chunk);
                futures::pin_mut!(fut);
                futures::poll!(fut)
            };
            let pending = p.is_pending();
            drop(w);
            return ok(json!({"dropped": true, "was_pending": pending}));
        }
        if usize_list(op, "abandon_chunks").contains(&i) {
            // the caller gives up on this write after one poll (select!/timeout) and moves on to other data
            {
                let fut = w.write(chunk);
                futures::pin_mut!(fut);
                if let std::task::Poll::Ready(Ok(k)) = futures::poll!(fut) {
                    acked += k as u64; // it completed at once: acknowledged after all
                }
            }
            if flush_after.contains(&i) {
                if let Err(e) = w.flush().await {
                    return io_err_json(&e, "flush");
                }
            }
            continue;
        }
        if repoll.contains(&i) {
            let fut = w.write(chunk);
            futures::pin_mut!(fut);
            let _ = futures::poll!(fut);
            // future dropped here; a fresh one for the same buffer follows (legal per AsyncWrite contract)
        }
        let mut rest = chunk;
        if op.get("write_all").and_then(|v| v.as_bool()) == Some(true) {
            // the convenience most callers use; it trusts the count the writer reports
            if let Err(e) = w.write_all(rest).await {
                let mut v = io_err_json(&e, "write");
                v["chunk"] = json!(i);
                return v;
            }
            acked += rest.len() as u64;
            rest = &rest[rest.len()..];
        }
        loop {
            if rest.is_empty() && op.get("write_all").and_then(|v| v.as_bool()) == Some(true) {
                break;
            }
            let vectored = op.get("vectored").and_then(|v| v.as_bool()) == Some(true);
            let res = if vectored {
                let mid = rest.len() / 2;
                w.write_vectored(&[std::io::IoSlice::new(&rest[..mid]), std::io::IoSlice::new(&rest[mid..])]).await
            } else {
                w.write(rest).await
            };
            match res {
                Ok(k) => {
                    if k > rest.len() {
                        return json!({"r":"err","v":"Bogus","msg":"write returned more than given"});
                    }
                    acked += k as u64;
                    rest = &rest[k..];
                    if rest.is_empty() {
                        break;
                    }
                    if k == 0 {
                        return json!({"r":"err","v":"IoError","kind":"WriteZero","phase":"write","chunk":i});
                    }
                }
                Err(e) if e.kind() == std::io::ErrorKind::Interrupted => {}
                Err(e) => {
                    let mut v = io_err_json(&e, "write");
                    v["chunk"] = json!(i);
                    return v;
                }
            }
        }
        if flush_after.contains(&i) {
            if let Err(e) = w.flush().await {
                return io_err_json(&e, "flush");
            }
        }
        if op.get("mid_after").and_then(|v| v.as_u64()) == Some(i as u64) {
            // something else happens to the cache directory while this writer is open
            env_act(&op["mid"]);
        }
    }
    match end {
        "drop" | "pending_drop" => {
            drop(w);
            ok(json!({"dropped": true}))
        }
        "close_drop" => {
            let r = close_writer(&mut w).await;
            drop(w);
            match r {
                Ok(()) => ok(json!({"dropped": true, "closed": true})),
                Err(e) => io_err_json(&e, "close"),
            }
        }
        "close_commit" => {
            if let Err(e) = close_writer(&mut w).await {
                return io_err_json(&e, "close");
            }
            let mut v = res_sri(w.commit().await);
            if v["r"] == "err" {
                v["phase"] = json!("commit");
            }
            v
        }
        _ => {
            if let Some(c) = opt_s(op, "clock_at_commit") {
                set_clock_ms(c.parse::<u128>().ok());
            }
            let mut v = res_sri(w.commit().await);
            if v["r"] == "err" {
                v["phase"] = json!("commit");
            }
            v["acked"] = json!(acked);
            v
        }
    }
}

async fn a_reader(op: &Value) -> Value {
    let cache_pb = pth(op, "cache");
    let cache: &Path = &cache_pb;
    let r = match opt_s(op, "key") {
        Some(k) => cacache::Reader::open(cache, k).await,
        None => cacache::Reader::open_hash(cache, parse_sri(op, "sri")).await,
    };
    let mut r = match r {
        Ok(r) => r,
        Err(e) => {
            let mut v = err_json(&e);
            v["phase"] = json!("open");
            return v;
        }
    };
    let bufs = {
        let b = usize_list(op, "bufs");
        if b.is_empty() {
            vec![8192]
        } else {
            b
        }
    };
    let mid_after = op.get("mid_after").and_then(|v| v.as_u64());
    let mut got = Vec::new();
    let mut i = 0usize;
    if let Some(first) = op.get("exact_first").and_then(|v| v.as_u64()) {
        // read_exact of a leading part (fails with UnexpectedEof when the stream is shorter; then nothing is taken)
        let mut b = vec![0u8; first as usize];
        match r.read_exact(&mut b).await {
            Ok(_) => got.extend_from_slice(&b),
            Err(e) if e.kind() == std::io::ErrorKind::UnexpectedEof => return ok(json!({"got": bytes_json(&got), "checked": false, "short": true})),
            Err(e) => {
                let mut v = io_err_json(&e, "read_exact");
                v["got"] = bytes_json(&got);
                return v;
            }
        }
    }
    if let Some(pre) = op.get("to_end").and_then(|v| v.as_u64()) {
        // the convenience most callers use, into a vector that already holds `pre` bytes
        let mut v = vec![0xa5u8; pre as usize];
        match r.read_to_end(&mut v).await {
            Ok(_) => got.extend_from_slice(&v[(pre as usize).min(v.len())..]),
            Err(e) => {
                let mut ev = io_err_json(&e, "read_to_end");
                ev["got"] = bytes_json(&v[(pre as usize).min(v.len())..]);
                return ev;
            }
        }
    }
    loop {
        if Some(i as u64) == mid_after {
            env_act(&op["mid"]);
        }
        let n = bufs[i % bufs.len()];
        let mut buf = vec![0u8; n];
        i += 1;
        match r.read(&mut buf).await {
            Ok(k) => {
                if k > n {
                    return json!({"r":"err","v":"Bogus","msg":"read returned more than buffer"});
                }
                got.extend_from_slice(&buf[..k]);
                if k == 0 && n > 0 {
                    break;
                }
            }
            Err(e) if e.kind() == std::io::ErrorKind::Interrupted => {}
            Err(e) => {
                let mut v = io_err_json(&e, "read");
                v["got"] = bytes_json(&got);
                return v;
            }
        }
        if bufs.iter().all(|b| *b == 0) && i >= 4 {
            // only zero-length buffers were offered: EOF cannot be observed, stop without the final check
            return ok(json!({"got": bytes_json(&got), "checked": false}));
        }
        if i > 10_000_000 {
            return json!({"r":"hang","msg":"reader never reached EOF"});
        }
    }
    // a caller that keeps reading after the end of the stream (a retry loop, a wrapper that polls once more): the
    // reader must go on reporting end of file, and whatever it does hand out counts as delivered bytes
    for _ in 0..op.get("eof_reads").and_then(|v| v.as_u64()).unwrap_or(0) {
        let mut buf = vec![0u8; 64];
        match r.read(&mut buf).await {
            Ok(k) => got.extend_from_slice(&buf[..k.min(64)]),
            Err(e) => {
                let mut v = io_err_json(&e, "read-after-eof");
                v["got"] = bytes_json(&got);
                return v;
            }
        }
    }
    if op.get("check").and_then(|v| v.as_bool()) == Some(false) {
        return ok(json!({"got": bytes_json(&got), "checked": false}));
    }
    match r.check() {
        Ok(_) => ok(json!({"got": bytes_json(&got), "checked": true})),
        Err(e) => {
            let mut v = err_json(&e);
            v["phase"] = json!("check");
            v["got"] = bytes_json(&got);
            v
        }
    }
}

async fn a_extract(op: &Value, name: &str) -> Value {
    let cache_pb = pth(op, "cache");
    let cache: &Path = &cache_pb;
    let to = pth(op, "to");
    let key = opt_s(op, "key");
    let sri = || parse_sri(op, "sri");
    match (name, key) {
        ("copy", Some(k)) => res_n(cacache::copy(cache, k, &to).await, &to),
        ("copy", None) => res_n(cacache::copy_hash(cache, &sri(), &to).await, &to),
        ("copy_unchecked", Some(k)) => res_n(cacache::copy_unchecked(cache, k, &to).await, &to),
        ("copy_unchecked", None) => res_n(cacache::copy_hash_unchecked(cache, &sri(), &to).await, &to),
        ("hard_link", Some(k)) => res_unit_dest(cacache::hard_link(cache, k, &to).await, &to),
        ("reflink", Some(k)) => res_unit_dest(cacache::reflink(cache, k, &to).await, &to),
        ("reflink", None) => res_unit_dest(cacache::reflink_hash(cache, &sri(), &to).await, &to),
        ("reflink_unchecked", Some(k)) => res_unit_dest(cacache::reflink_unchecked(cache, k, &to).await, &to),
        _ => json!({"r":"unsupported"}),
    }
}

async fn a_link_to(op: &Value) -> Value {
    let cache_pb = pth(op, "cache");
    let cache: &Path = &cache_pb;
    let key = opt_s(op, "key");
    let target_pb = pth(op, "target");
    let target: &Path = &target_pb;
    if s(op, "entry") == "fn" {
        return res_sri(match key {
            Some(k) => cacache::link_to(cache, k, target).await,
            None => cacache::link_to_hash(cache, target).await,
        });
    }
    let l = match s(op, "entry") {
        "open" => match key {
            Some(k) => cacache::ToLinker::open(cache, k, target).await,
            None => cacache::ToLinker::open_hash(cache, target).await,
        },
        _ => {
            let o = build_opts(&op["opts"]);
            match key {
                Some(k) => o.link_to(cache, k, target).await,
                None => o.link_to_hash(cache, target).await,
            }
        }
    };
    let mut l = match l {
        Ok(l) => l,
        Err(e) => {
            let mut v = err_json(&e);
            v["phase"] = json!("open");
            return v;
        }
    };
    let mut got = Vec::new();
    for n in usize_list(op, "reads") {
        let mut buf = vec![0u8; n];
        match l.read(&mut buf).await {
            Ok(k) => got.extend_from_slice(&buf[..k.min(n)]),
            Err(e) => return io_err_json(&e, "read"),
        }
    }
    if let Some(pre) = op.get("to_end").and_then(|v| v.as_u64()) {
        // the rest through read_to_end into a vector that already holds `pre` bytes
        let mut v = vec![0xa5u8; pre as usize];
        match l.read_to_end(&mut v).await {
            Ok(_) => got.extend_from_slice(&v[(pre as usize).min(v.len())..]),
            Err(e) => return io_err_json(&e, "read_to_end"),
        }
    }
    if s(op, "end") == "drop" {
        drop(l);
        return ok(json!({"dropped": true, "got": bytes_json(&got)}));
    }
    if let Some(d) = opt_s(op, "chdir_before_commit") {
        // the working directory changes between opening the linker and committing it
        let _ = std::env::set_current_dir(pdec(d));
    }
    let mut v = res_sri(l.commit().await);
    v["got"] = bytes_json(&got);
    v
}

async fn dispatch(op: &Value) -> Value {
    let cache_pb = pth(op, "cache");
    let cache: &Path = &cache_pb;
    match s(op, "op") {
        "write" => a_write(op).await,
        "read" => res_bytes(match opt_s(op, "key") {
            Some(k) => cacache::read(cache, k).await,
            None => cacache::read_hash(cache, &parse_sri(op, "sri")).await,
        }),
        "reader" => a_reader(op).await,
        n @ ("copy" | "copy_unchecked" | "hard_link" | "hard_link_unchecked" | "reflink" | "reflink_unchecked") => {
            a_extract(op, n).await
        }
        "metadata" => res_meta(cacache::metadata(cache, s(op, "key")).await),
        "find" => res_meta(cacache::index::find_async(Path::new(cache), s(op, "key")).await),
        "exists" => ok(json!({"b": cacache::exists(cache, &parse_sri(op, "sri")).await})),
        "remove" => res_unit(cacache::remove(cache, s(op, "key")).await),
        "remove_hash" => res_unit(cacache::remove_hash(cache, &parse_sri(op, "sri")).await),
        "remove_opts" => res_unit(
            cacache::RemoveOpts::new()
                .remove_fully(op["fully"].as_bool().unwrap_or(false))
                .remove(cache, s(op, "key"))
                .await,
        ),
        "clear" => res_unit(cacache::clear(cache).await),
        "index_insert" => {
            res_sri(cacache::index::insert_async(Path::new(cache), s(op, "key"), build_opts(&op["opts"])).await)
        }
        "index_delete" => res_unit(cacache::index::delete_async(Path::new(cache), s(op, "key")).await),
        "link_to" => a_link_to(op).await,
        _ => json!({"r":"unsupported"}),
    }
}

/// Polls the wrapped future at most `left` times, then gives up: dropping it cancels the operation at that await point.
struct CancelAfter<F> {
    fut: std::pin::Pin<Box<F>>,
    left: usize,
}

impl<F: std::future::Future> std::future::Future for CancelAfter<F> {
    type Output = Option<F::Output>;
    fn poll(mut self: std::pin::Pin<&mut Self>, cx: &mut std::task::Context<'_>) -> std::task::Poll<Self::Output> {
        if self.left == 0 {
            return std::task::Poll::Ready(None);
        }
        self.left -= 1;
        match self.fut.as_mut().poll(cx) {
            std::task::Poll::Ready(v) => std::task::Poll::Ready(Some(v)),
            std::task::Poll::Pending => {
                if self.left == 0 {
                    std::task::Poll::Ready(None)
                } else {
                    std::task::Poll::Pending
                }
            }
        }
    }
}

pub fn exec_async(op: &Value) -> Value {
    if let Some(k) = op.get("cancel_polls").and_then(|v| v.as_u64()) {
        // the caller drops the future of the whole call after k polls (select!/timeout style cancellation)
        return run(async move {
            match (CancelAfter { fut: Box::pin(dispatch(op)), left: k as usize }).await {
                Some(v) => v,
                None => json!({"r":"cancelled","polls":k}),
            }
        });
    }
    run(dispatch(op))
}
